// C05 — JSON parser is total and standard-conformant; strict mode = no extensions.
//
// E-ENUM over the real phosg::JSON::parse (all three entry points x {default, strict}; plus the defaulted-mode overloads
// and readers positioned inside a larger buffer, see C05_common.hh) on
//   bytes16 / bytes28 : every byte string over a reduced / the full alphabet up to a length bound
//   grammar           : every derivation of the RFC 8259 grammar up to a token bound, three whitespace
//                       renderings, every truncation, delimiter/junk suffixes
//   ext               : the same documents rewritten with each documented extension
//   mutate            : every single-byte substitution / insertion / deletion of a document corpus
//   deep              : 499/500/501-deep lists / dictionaries / mixed, every truncation
// against the reference models R_std / R_ext of C04_jsonref.hh.  One oracle (c05::check_text) is used for
// every text; the sections differ only in what they enumerate.  Round-2 sections (allbytes, bounds, hist, soak,
// contexts, streams) are in C05_r2.cc.
//
// Inputs live in exact-size malloc() blocks without terminator, so a read past the end is an ASan report
// (attributed to the case by check.py).
#include "C05_common.hh"

using namespace phosg;
using namespace c05;

namespace {

// ---- alphabets --------------------------------------------------------------------------------

const std::string SIGMA16 = std::string("{}[],:\"\\/01-.en\n");
const std::string SIGMA28 = std::string("{}[],:\"\\/01-+.exntfulars \n") + std::string(1, '\0') + std::string(1, '\x80');

void bytes_section(vf::Run& r, const std::string& sigma, size_t maxlen, size_t dat_maxlen, size_t full_maxlen) {
  FILE* dat = jref::dat_open(r.section, r.shard);
  r.note("JSON::parse");
  vf::all_strings(sigma, maxlen, [&](const std::string& s) {
    if (!r.take()) return;
    text_case(r, s, s.size() <= dat_maxlen ? dat : nullptr, s.size() <= full_maxlen ? ES_FULL : ES_CORE);
  });
  if (dat) fclose(dat);
  r.bound = vf::fmt("all byte strings over %zu symbols, length 0..%zu, x {default,strict} x {reader,ptr+size,std::string}; length 0..%zu also through the defaulted-mode overloads and readers at offsets 1 and 10", sigma.size(), maxlen, full_maxlen);
}

// ---- grammar-generated documents --------------------------------------------------------------

typedef std::vector<std::string> Toks;

struct Gen {
  std::vector<std::string> atoms, keys;
  std::map<int, std::vector<Toks>> V, L, D;

  static Toks cat(const Toks& a, const Toks& b) {
    Toks t = a;
    t.insert(t.end(), b.begin(), b.end());
    return t;
  }
  const std::vector<Toks>& values(int n) {
    auto it = V.find(n);
    if (it != V.end()) return it->second;
    std::vector<Toks> out;
    if (n == 1) for (auto& a : atoms) out.push_back({a});
    if (n == 2) { out.push_back({"[", "]"}); out.push_back({"{", "}"}); }
    if (n >= 3) {
      for (auto& body : lists(n - 2)) out.push_back(cat(cat({"["}, body), {"]"}));
      for (auto& body : dicts(n - 2)) out.push_back(cat(cat({"{"}, body), {"}"}));
    }
    return V[n] = std::move(out);
  }
  const std::vector<Toks>& lists(int m) {  // non-empty element sequences with exactly m tokens
    auto it = L.find(m);
    if (it != L.end()) return it->second;
    std::vector<Toks> out;
    if (m >= 1) {
      for (auto& v : values(m)) out.push_back(v);
      for (int a = 1; a + 2 <= m; a++)
        for (auto& v : values(a))
          for (auto& rest : lists(m - a - 1)) out.push_back(cat(cat(v, {","}), rest));
    }
    return L[m] = std::move(out);
  }
  const std::vector<Toks>& dicts(int m) {  // non-empty member sequences with exactly m tokens
    auto it = D.find(m);
    if (it != D.end()) return it->second;
    std::vector<Toks> out;
    if (m >= 3) {
      for (auto& k : keys)
        for (auto& v : values(m - 2)) out.push_back(cat({k, ":"}, v));
      for (int a = 1; a + 2 + 1 + 3 <= m; a++)
        for (auto& k : keys)
          for (auto& v : values(a))
            for (auto& rest : dicts(m - a - 3)) {
              if (rest[0] == k) continue;  // keep keys unique among neighbours (duplicates are outside the statement)
              out.push_back(cat(cat(cat({k, ":"}, v), {","}), rest));
            }
    }
    return D[m] = std::move(out);
  }
};

const std::vector<std::string> NUMBERS = {"0", "-0", "1", "10", "-1", "1.5", "5e-1", "1E+2", "1e2", "-1.25e-3", "0.000001", "1e20", "1e-7", "2.5e-308",
    "1.7976931348623157e308", "123456789012345678901.5", "9223372036854775807", "-9223372036854775808", "0.0", "-0.0", "0e0", "1.0E-2"};
const std::vector<std::string> STRINGS = {"\"\"", "\"a\"", "\"\\\"\"", "\"\\\\\"", "\"\\/\"", "\"\\b\"", "\"\\f\"", "\"\\n\"", "\"\\r\"", "\"\\t\"",
    "\"\\u0041\"", "\"\\u00e9\"", "\"\\u00E9\"", "\"\\u0000\"", "\"\xC3\xA9\"", "\"\x7F\"", "\"\xFF\"", "\"a\\\"b\\\\c\"", "\"//\"", "\"0x1\"", "\" \"", "\"[1,]\""};
const std::vector<std::string> LITERALS = {"true", "false", "null"};

Gen make_gen(bool full) {
  Gen g;
  if (full) {
    g.atoms = NUMBERS;
    g.atoms.insert(g.atoms.end(), STRINGS.begin(), STRINGS.end());
    g.atoms.insert(g.atoms.end(), LITERALS.begin(), LITERALS.end());
    g.keys = {"\"\"", "\"a\"", "\"b\"", "\"\\\"\"", "\"\\n\"", "\"\\u00e9\"", "\"\xC3\xA9\"", "\"\xFF\"", "\"a\\\"b\\\\c\"", "\"\\u0000\"", "\"//\"", "\" \""};
  } else {
    g.atoms = {"0", "-1.25e-3", "5e-1", "9223372036854775807", "\"a\"", "\"\\n\"", "\"\\u00e9\"", "true", "false", "null"};
    g.keys = {"\"a\"", "\"b\"", "\"\"", "\"\\u00e9\""};
  }
  return g;
}

std::string render(const Toks& t, int ws) {
  static const char* cyc[] = {"\n", "\t", "\r\n", "  ", " "};
  std::string s;
  for (size_t k = 0; k <= t.size(); k++) {
    if (ws == 1) s += ' ';
    else if (ws == 2) s += cyc[k % 5];
    if (k < t.size()) s += t[k];
  }
  return s;
}

// All generated documents of the tier, simplest first.
// (Documents of the quick tier are flagged: the thorough tier treats them exactly as the quick tier does.)
struct GDoc {
  Toks toks;
  bool in_quick;
};
std::vector<GDoc> grammar_docs2(bool thorough) {
  std::vector<GDoc> docs;
  Gen full = make_gen(true), rep = make_gen(false);
  int full_max = thorough ? 7 : 5, rep_max = thorough ? 9 : 7;
  for (int n = 1; n <= rep_max; n++) {
    if (n <= full_max) for (auto& d : full.values(n)) docs.push_back({d, n <= 5});
    else for (auto& d : rep.values(n)) docs.push_back({d, !thorough});
  }
  return docs;
}
std::vector<Toks> grammar_docs(bool thorough) {
  std::vector<Toks> docs;
  for (auto& d : grammar_docs2(thorough)) docs.push_back(d.toks);
  return docs;
}

const std::vector<std::string> SUFFIXES = {" ", ",", "]", "}", " x", "\n1", " \t\r\n", " \"a\"", ",1", " //c", " //c\nx"};

}  // namespace

VF_SECTION(bytes16, 16, 16, 120) {
  bytes_section(r, SIGMA16, r.thorough() ? 6 : 5, 5, 4);
}

VF_SECTION(bytes28, 0, 16, 120) {
  bytes_section(r, SIGMA28, 5, 4, 3);
}

VF_SECTION(grammar, 16, 16, 120) {
  FILE* dat = jref::dat_open(r.section, r.shard);
  r.note("JSON::parse");
  std::vector<GDoc> docs = grammar_docs2(r.thorough());
  uint64_t ndocs = 0;
  for (auto& gd : docs) {
    const Toks& d = gd.toks;
    // truncations of the documents beyond the quick tier's token bound go through the core entries only
    const EntrySet trunc_es = gd.in_quick ? ES_FULL : ES_CORE;
    for (int ws = 0; ws < 3; ws++) {
      std::string text = render(d, ws);
      ndocs++;
      // the document itself; the generator and R_std must agree that it is standard JSON
      if (r.take()) {
        jref::Result st = jref::parse(text, false);
        if (!st.accepted) r.fail("self-check:reference-rejects-generated-document", [&] { return vf::show(text) + ": " + st.why; });
        text_case(r, text, dat);
      }
      // every proper truncation
      for (size_t k = 0; k < text.size(); k++) {
        if (!r.take()) continue;
        text_case(r, text.substr(0, k), dat, trunc_es);
      }
      // value followed by a delimiter / whitespace / junk (reader extent, trailing-data rule)
      if (ws != 1) {
        for (auto& suf : SUFFIXES) {
          if (!r.take()) continue;
          text_case(r, text + suf, dat);
        }
      }
    }
  }
  if (dat) fclose(dat);
  r.counters["documents"] += r.shard == 0 ? ndocs : 0;
  r.bound = r.thorough() ? "all RFC 8259 derivations: <=7 tokens over 47 atoms/12 keys, 8-9 tokens over 10 atoms/4 keys; x3 whitespace renderings; every truncation; 11 suffixes"
                         : "all RFC 8259 derivations: <=5 tokens over 47 atoms/12 keys, 6-7 tokens over 10 atoms/4 keys; x3 whitespace renderings; every truncation; 11 suffixes";
}

namespace {

bool is_int_token(const std::string& t) {
  if (t.empty() || t[0] == '"') return false;
  size_t i = t[0] == '-' ? 1 : 0;
  if (i >= t.size()) return false;
  for (; i < t.size(); i++) if (t[i] < '0' || t[i] > '9') return false;
  return true;
}

std::string hex_token(const std::string& t, bool lower) {
  bool neg = t[0] == '-';
  uint64_t m = strtoull(t.c_str() + (neg ? 1 : 0), nullptr, 10);
  return vf::fmt(lower ? "%s0x%llx" : "%s0x%llX", neg ? "-" : "", (unsigned long long)m);
}

std::string join(const Toks& t) { return render(t, 0); }

// documents rewritten with documented extensions
std::vector<std::string> ext_variants(const Toks& d) {
  std::vector<std::string> out;
  // (a) trailing commas before every close of a non-empty container; and before the last one only
  {
    Toks all, last = d;
    bool any = false;
    for (size_t k = 0; k < d.size(); k++) {
      if ((d[k] == "]" || d[k] == "}") && k > 0 && d[k - 1] != "[" && d[k - 1] != "{") { all.push_back(","); any = true; }
      all.push_back(d[k]);
    }
    if (any) {
      out.push_back(join(all));
      out.push_back(render(all, 1));
      for (size_t k = d.size(); k-- > 0;)
        if ((d[k] == "]" || d[k] == "}") && k > 0 && d[k - 1] != "[" && d[k - 1] != "{") {
          last.insert(last.begin() + k, ",");
          out.push_back(join(last));
          break;
        }
    }
  }
  // (b) hexadecimal integers
  {
    Toks up = d, lo = d;
    bool any = false;
    for (size_t k = 0; k < d.size(); k++)
      if (is_int_token(d[k])) { up[k] = hex_token(d[k], false); lo[k] = hex_token(d[k], true); any = true; }
    if (any) { out.push_back(join(up)); out.push_back(render(lo, 2)); }
  }
  // (c) one-character constants
  {
    Toks t = d;
    bool any = false;
    for (auto& x : t) {
      if (x == "null") { x = "n"; any = true; }
      else if (x == "true") { x = "t"; any = true; }
      else if (x == "false") { x = "f"; any = true; }
    }
    if (any) { out.push_back(join(t)); out.push_back(render(t, 1)); }
  }
  // (d) a comment at each token boundary
  for (size_t k = 0; k <= d.size(); k++) {
    Toks t = d;
    t.insert(t.begin() + k, k % 2 ? "//c\n" : "// \"[{\n");
    out.push_back(join(t));
  }
  out.push_back(join(d) + "//");
  out.push_back(join(d) + " // c");
  out.push_back("//\n" + join(d));
  return out;
}

const std::vector<std::string>& EXT_CORPUS = ext_corpus();
const std::vector<std::string>& STD_CORPUS = std_corpus();

}  // namespace

VF_SECTION(ext, 8, 16, 120) {
  FILE* dat = jref::dat_open(r.section, r.shard);  // R_std rejects all of these; so must Python
  r.note("JSON::parse");
  std::vector<Toks> docs = grammar_docs(r.thorough());
  for (auto& c : EXT_CORPUS) {
    if (!r.take()) continue;
    jref::Result ex = jref::parse(c, true), st = jref::parse(c, false);
    if (!ex.accepted || st.accepted || !ex.ext_used) r.fail("self-check:extension-corpus-not-extension", [&] { return vf::show(c); });
    text_case(r, c, dat);
  }
  for (auto& d : docs) {
    // the number of variants is a pure function of the token list, so every shard indexes identically
    for (auto& text : ext_variants(d)) {
      if (!r.take()) continue;
      jref::Result ex = jref::parse(text, true);
      if (!ex.accepted || !ex.ext_used) r.fail("self-check:reference-rejects-extension-document", [&] { return vf::show(text) + ": " + ex.why; });
      text_case(r, text, dat);
    }
  }
  if (dat) fclose(dat);
  r.bound = "every generated document rewritten with: trailing commas, hexadecimal integers (upper/lower), one-character constants, a // comment at each token boundary and at the end";
}

VF_SECTION(mutate, 16, 16, 120) {
  FILE* dat = jref::dat_open(r.section, r.shard);
  r.note("JSON::parse");
  std::vector<std::string> corpus = STD_CORPUS;
  corpus.insert(corpus.end(), EXT_CORPUS.begin(), EXT_CORPUS.end());
  const std::string& sigma = SIGMA28;
  std::string extra = r.thorough() ? std::string("2589EFabcd\t\r'#*") : std::string();
  std::string alphabet = sigma + extra;
  for (auto& doc : corpus) {
    if (r.take()) text_case(r, doc, dat);
    for (size_t i = 0; i <= doc.size(); i++) {
      for (char c : alphabet) {  // insertion before position i
        if (!r.take()) continue;
        std::string m = doc;
        m.insert(m.begin() + i, c);
        text_case(r, m, dat);
      }
      if (i == doc.size()) break;
      for (char c : alphabet) {  // substitution
        if (c == doc[i]) continue;
        if (!r.take()) continue;
        std::string m = doc;
        m[i] = c;
        text_case(r, m, dat);
      }
      if (r.take()) {  // deletion
        std::string m = doc;
        m.erase(i, 1);
        text_case(r, m, dat);
      }
    }
  }
  if (dat) fclose(dat);
  r.counters["corpus_documents"] += r.shard == 0 ? corpus.size() : 0;
  r.bound = vf::fmt("every single-byte insertion/substitution/deletion (alphabet of %zu bytes) at every position of a %zu-document corpus (standard + extension documents)", alphabet.size(), corpus.size());
}

VF_SECTION(deep, 16, 16, 180) {
  FILE* dat = jref::dat_open(r.section, r.shard);
  r.note("JSON::parse");
  std::vector<std::pair<std::string, bool>> docs;  // text, enumerate-every-truncation
  for (int depth : {499, 500}) {
    docs.push_back({rep("[", depth) + rep("]", depth), depth == 500});
    docs.push_back({rep("[", depth) + "1" + rep("]", depth), false});
    docs.push_back({rep("{\"a\":", depth) + "1" + rep("}", depth), depth == 500});
    docs.push_back({rep("{\"a\":", depth - 1) + "{}" + rep("}", depth - 1), false});
    docs.push_back({rep("[{\"k\":", depth / 2) + "5e-1" + rep("}]", depth / 2), depth == 500});
    docs.push_back({rep("[1,", depth - 1) + "[2]" + rep("]", depth - 1), false});
    docs.push_back({rep(" [ ", depth) + rep(" ] ", depth), false});
    // extension forms at depth
    docs.push_back({rep("[", depth) + "1" + rep(",]", depth), false});
    docs.push_back({rep("[//c\n", depth) + "n" + rep("]", depth), false});
  }
  // exactly 499 / 500 alternating list/dictionary levels (the mixed document above has 498 / 500)
  docs.push_back({rep("[{\"k\":", 249) + "[1]" + rep("}]", 249), false});
  docs.push_back({rep("{\"k\":[", 249) + "{\"k\":1}" + rep("]}", 249), false});
  docs.push_back({rep("{\"k\":[", 250) + "\"x\"" + rep("]}", 250), false});
  // beyond the statement's nesting bound: totality only (R_std flags too_deep)
  docs.push_back({rep("[", 501) + rep("]", 501), false});
  docs.push_back({rep("[", 501) + "1" + rep("]", 501), false});
  docs.push_back({rep("{\"a\":", 501) + "1" + rep("}", 501), false});
  docs.push_back({rep("{\"a\":", 500) + "{}" + rep("}", 500), false});
  docs.push_back({rep("[{\"k\":", 250) + "[1]" + rep("}]", 250), false});
  docs.push_back({rep("{\"k\":[", 250) + "{\"k\":1}" + rep("]}", 250), false});
  docs.push_back({rep("[", 600) + rep("]", 600), false});
  docs.push_back({rep("{\"a\":", 600) + "1" + rep("}", 600), false});
  docs.push_back({rep("[", 600), false});
  docs.push_back({rep("{\"a\":", 600), false});
  for (auto& [text, trunc] : docs) {
    if (r.take()) text_case(r, text, dat);
    for (auto suf : {",", " x", "]"}) {
      if (!r.take()) continue;
      text_case(r, text + suf, dat);
    }
    if (!trunc) continue;
    // (an exception unwinding through 500 parser frames costs milliseconds under ASan: the truncations go through the
    // three entry points x two modes only)
    for (size_t k = 0; k < text.size(); k++) {
      if (!r.take()) continue;
      text_case(r, text.substr(0, k), dat, ES_CORE);
    }
  }
  if (dat) fclose(dat);
  r.bound = "lists / dictionaries / alternating list-dictionary / whitespace-padded / extension forms nested exactly 499 and 500 deep (+ 3 suffixes each), every truncation of the 500-deep list, dictionary and mixed documents; 501 deep (list, dictionary, alternating) and 600 deep for totality only";
}

VF_MAIN()
