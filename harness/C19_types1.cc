// C19 (part): relation macros over operand-type pairs - every integer width, mixed signedness and width, floating-point mixes.
#include "C19_rel.hh"

using namespace phosg;
using namespace c19;

// Mixed operand types, every integer width, wide strings, pointers, enums, containers.
VF_SECTION(operand_numbers, 8, 16, 120) {
  const auto& C = r.thorough() ? all_ctx() : main_ctx();
  auto ks = r.thorough() ? ks_all() : ks_quick();
  // every integer width, signed and unsigned, values 2^k-1, 2^k, 2^k+1 and their negatives, in pairs
  check_relations<int8_t>(r, "int8", pow2_set<int8_t>(ks_all()), C);
  check_relations<uint8_t>(r, "uint8", pow2_set<uint8_t>(ks_all()), C);
  check_relations<int16_t>(r, "int16", pow2_set<int16_t>(ks), C);
  check_relations<uint16_t>(r, "uint16", pow2_set<uint16_t>(ks), C);
  check_relations<int32_t>(r, "int32", pow2_set<int32_t>(ks), C);
  check_relations<uint32_t>(r, "uint32", pow2_set<uint32_t>(ks), C);
  check_relations<int64_t>(r, "int64 2^k", pow2_set<int64_t>(ks), C);
  check_relations<uint64_t>(r, "uint64 2^k", pow2_set<uint64_t>(ks), C);
  check_relations<long long, unsigned long>(r, "long long x unsigned long", pow2_set<long long>(ks_quick()), pow2_set<unsigned long>(ks_quick()), C);
  // mixed signedness / width: the stated relation is the C++ expression (a) == (b) with its usual conversions
  check_relations<int, size_t>(r, "int x size_t", {INT32_MIN, -1, 0, 1, INT32_MAX}, {0, 1, 0x7FFFFFFFu, 0x80000000u, 0xFFFFFFFFu, 0x100000000ull, 0x7FFFFFFFFFFFFFFFull, 0x8000000000000000ull, SIZE_MAX - 1, SIZE_MAX}, C);
  check_relations<size_t, int>(r, "size_t x int", {0, 1, 0x7FFFFFFFu, 0x80000000u, 0xFFFFFFFFu, SIZE_MAX}, {INT32_MIN, -1, 0, 1, INT32_MAX}, C);
  check_relations<int64_t, uint64_t>(r, "int64 x uint64", {INT64_MIN, -1, 0, 1, INT64_MAX}, {0, 1, 0x7FFFFFFFFFFFFFFFull, 0x8000000000000000ull, UINT64_MAX}, C);
  check_relations<unsigned, int>(r, "unsigned x int", {0u, 1u, 0x7FFFFFFFu, 0x80000000u, 0xFFFFFFFFu}, {INT32_MIN, -1, 0, 1, INT32_MAX}, C);
  check_relations<short, unsigned short>(r, "short x ushort", {-32768, -1, 0, 1, 32767}, {0, 1, 32767, 32768, 65535}, C);
  check_relations<int8_t, uint8_t>(r, "int8 x uint8", {-128, -1, 0, 1, 127}, {0, 1, 127, 128, 255}, C);
  check_relations<char, int>(r, "char x int", {(char)0, 'a', (char)0x7F, (char)0x80, (char)0xFF}, {-128, -1, 0, 97, 127, 128, 255}, C);
  check_relations<bool, int>(r, "bool x int", std::vector<bool>{false, true}, std::vector<int>{-1, 0, 1, 2}, C);
  float finf = __builtin_inff();
  double inf = __builtin_inf();
  check_relations<float>(r, "float", {-finf, -1.5f, -0.0f, 0.0f, 0.1f, 1.5f, finf, __builtin_nanf("")}, C);
  check_relations<float, double>(r, "float x double", {-finf, -0.0f, 0.0f, 0.1f, 0.5f, 16777216.0f, finf, __builtin_nanf("")}, {-inf, -0.0, 0.0, 0.1, 0.5, 16777217.0, inf, __builtin_nan("")}, C);
  check_relations<long double, double>(r, "long double x double", {-1.0L, 0.0L, 0.1L, 1.0L, (long double)__builtin_nan("")}, {-1.0, 0.0, 0.1, 1.0, __builtin_nan("")}, C);
  check_relations<int, double>(r, "int x double", {INT32_MIN, -1, 0, 1, INT32_MAX}, {-inf, -2147483648.0, -1.0, -0.5, -0.0, 0.0, 0.5, 1.0, 2147483647.0, inf, __builtin_nan("")}, C);
  check_relations<int64_t, double>(r, "int64 x double", {INT64_MIN, -1, 0, 1, (1ll << 53), (1ll << 53) + 1, INT64_MAX}, {-9223372036854775808.0, -1.0, 0.0, 1.0, 9007199254740992.0, 9223372036854775808.0, __builtin_nan("")}, C);
  r.bound = std::string("8 macro forms x all ordered operand pairs of 22 arithmetic operand-type pairs: every integer width signed and unsigned with +-(2^k-1), +-2^k, +-(2^k+1) for k in ") +
      (r.thorough() ? "0..63" : "{0,7,8,15,16,31,32,63} (8-bit: all k)") + ", mixed signedness/width pairs (int x size_t up to SIZE_MAX, size_t x int, int64 x uint64, unsigned x int, short x ushort, int8 x uint8, char x int, bool x int), float / float x double / long double x double / int x double / int64 x double with NaN, infinities, signed zeros, 2^24+1 and 2^53+1 x " +
      (r.thorough() ? "10 execution contexts" : "4 execution contexts (plain, catch handler, destructor during unwinding, second thread)");
}
