// C20 — integer, vector and matrix helpers satisfy their defining equations.
// E-ENUM over the real templates (gcd, reduce_fraction, log2i, Vector2/3/4, Matrix4) and E-ENV for
// random_int/random_data: the /dev/urandom stream is owned through a link-time wrapped read(), and
// every history over random_data's function-local static buffer starts in a forked child.
// Vector sections: harness/C20_vec.cc, C20_vecw{1,2,3}.cc; matrix sections: harness/C20_mat.cc; shared helpers: C20_common.hh.
#include <fcntl.h>
#include <math.h>
#include <sys/stat.h>
#include <sys/sysmacros.h>
#include <sys/types.h>

#include <algorithm>
#include <array>
#include <limits>
#include <numeric>
#include <set>
#include <string>
#include <tuple>
#include <vector>

#include "Math.hh"  // has no include guard: include exactly once
#include "Random.hh"
#include "C20_common.hh"

using namespace c20;

namespace {

// ------------------------------------------------------------------------------------------------
// gcd / reduce_fraction
// ------------------------------------------------------------------------------------------------

// One (a, b): gcd and reduce_fraction against their defining equations.  Every call of the code under test runs
// under trapped(): a division trap (SIGFPE) is an outcome of the case, not a crash of the shard.
template <class T>
void gcd_case(vf::Run& r, const char* tn, T a, T b) {
  if (r.wants_desc()) r.desc(vf::fmt("gcd/reduce_fraction<%s>(%s, %s)", tn, s128(a).c_str(), s128(b).c_str()));
  std::string K = std::string("<") + tn + ">";
  uint64_t ua = (uint64_t)a, ub = (uint64_t)b;  // operands are non-negative
  T g = 0;
  r.poison_errno();
  if (int sig = trapped([&] { g = phosg::gcd<T>(a, b); })) {
    r.nontriv();
    r.fail("gcd" + K + ":arithmetic-trap", [&] { return vf::fmt("gcd<%s>(%s, %s) raised signal %d (%s); std::gcd gives %llu", tn, s128(a).c_str(), s128(b).c_str(), sig, strsignal(sig), (unsigned long long)std::gcd(ua, ub)); });
    return;
  }
  uint64_t ug = (uint64_t)g;
  auto d = [&] { return vf::fmt("gcd<%s>(%s, %s) returned %s; std::gcd gives %llu", tn, s128(a).c_str(), s128(b).c_str(), s128(g).c_str(), (unsigned long long)std::gcd(ua, ub)); };
  bool bad = false;
  if (ua == 0 && ub == 0) {
    if (g != 0) { r.fail("gcd" + K + ":gcd(a,0)!=a", d); bad = true; }
    if (!bad) r.ok("gcd(0,0)=0; reduce_fraction not called (excluded)");
    return;
  }
  r.nontriv();
  if (g <= 0) { r.fail("gcd" + K + ":not-positive", d); return; }
  if (ua % ug != 0 || ub % ug != 0) { r.fail("gcd" + K + ":not-a-common-divisor", d); bad = true; }
  if (b == 0 && g != a) { r.fail("gcd" + K + ":gcd(a,0)!=a", d); bad = true; }
  if (a == 0 && g != b) { r.fail("gcd" + K + ":gcd(0,b)!=b", d); bad = true; }
  // every common divisor divides g: brute force up to 300 (complete for the [0,300]^2 block) ...
  for (uint64_t c = 1; c <= 300 && !bad; c++) {
    if (ua % c == 0 && ub % c == 0 && ug % c != 0) { r.fail("gcd" + K + ":not-greatest", d); bad = true; }
  }
  // ... and beyond it the binary-gcd of libstdc++ (independent of the Euclid loop under test)
  if (!bad && ug != std::gcd(ua, ub)) { r.fail("gcd" + K + ":not-greatest", d); bad = true; }

  std::pair<T, T> f(0, 0);
  r.poison_errno();
  if (int sig = trapped([&] { f = phosg::reduce_fraction<T>(a, b); })) {
    r.fail("reduce_fraction" + K + ":arithmetic-trap", [&] { return vf::fmt("reduce_fraction<%s>(%s, %s) raised signal %d (%s)", tn, s128(a).c_str(), s128(b).c_str(), sig, strsignal(sig)); });
    return;
  }
  uint64_t fa = (uint64_t)f.first, fb = (uint64_t)f.second;
  auto d2 = [&] { return vf::fmt("reduce_fraction<%s>(%s, %s) returned (%s, %s)", tn, s128(a).c_str(), s128(b).c_str(), s128(f.first).c_str(), s128(f.second).c_str()); };
  if (f.first < 0 || f.second < 0) { r.fail("reduce_fraction" + K + ":negative-term", d2); bad = true; }
  else {
    if (std::gcd(fa, fb) != 1) { r.fail("reduce_fraction" + K + ":not-coprime", d2); bad = true; }
    if ((u128)ua * fb != (u128)fa * ub) { r.fail("reduce_fraction" + K + ":ratio-changed", d2); bad = true; }
    if ((ua == 0) != (fa == 0) || (ub == 0) != (fb == 0)) { r.fail("reduce_fraction" + K + ":ratio-changed", d2); bad = true; }
  }
  // aliased forms: the result overwrites an operand, the reduced pair overwrites the pair it was read from, both
  // parameters are bound to the same object.  Same function values as above are demanded.
  {
    T x = a, y = b, x2 = a, y2 = b;
    std::pair<T, T> p(a, b);
    T same = a, gs = 0;
    int sig = trapped([&] {
      x = phosg::gcd<T>(x, y);
      y2 = phosg::gcd<T>(x2, y2);
      p = phosg::reduce_fraction<T>(p.first, p.second);
      gs = phosg::gcd<T>(same, same);
    });
    if (sig || x != g || y2 != g || p != f || gs != a) {
      bad = true;
      r.fail("gcd" + K + ":aliased-forms-differ", [&] {
        return vf::fmt("<%s> a=%s b=%s: x = gcd(x, y) gave %s, y = gcd(x, y) gave %s (gcd into a separate object: %s); p = reduce_fraction(p.first, p.second) gave (%s, %s) (into a separate object: (%s, %s)); gcd(a, a) gave %s%s", tn,
            s128(a).c_str(), s128(b).c_str(), s128(x).c_str(), s128(y2).c_str(), s128(g).c_str(), s128(p.first).c_str(), s128(p.second).c_str(), s128(f.first).c_str(), s128(f.second).c_str(), s128(gs).c_str(), sig ? "; a signal was raised" : "");
      });
    }
  }
  if (!bad) r.ok(ug == 1 ? "coprime operands" : (a == 0 || b == 0) ? "one operand zero" : "common factor removed");
}

template <class T>
void gcd_type(vf::Run& r, const char* tn) {
  r.note(std::string("gcd<") + tn + ">");
  typedef std::numeric_limits<T> L;
  const uint64_t maxv = (uint64_t)L::max();
  const uint64_t lim = maxv < 300 ? maxv : 300;
  for (uint64_t a = 0; a <= lim; a++) {
    for (uint64_t b = 0; b <= lim; b++) {
      if (!r.take()) continue;
      gcd_case<T>(r, tn, (T)a, (T)b);
    }
  }
  // boundaries of the type (non-negative only)
  std::vector<uint64_t> B = {maxv, maxv - 1, maxv - 2, maxv / 2, maxv / 2 + 1, maxv / 3, (maxv / 3) * 3, maxv / 255 * 255, maxv - maxv % 6};
  if (!L::is_signed) B.push_back(maxv / 2 + 1);  // 2^(w-1)
  else B.push_back((maxv + 1) / 2);              // 2^(w-2)
  std::vector<uint64_t> S = {0, 1, 2, 3, 4, 5, 6, 7, 9, 10, 12, 15, 16, 25, 64, 100, 127};
  std::vector<uint64_t> all = B;
  for (auto s : S) if (s <= maxv) all.push_back(s);
  for (size_t i = 0; i < all.size(); i++) {
    for (size_t j = 0; j < all.size(); j++) {
      if (i >= B.size() && j >= B.size()) continue;  // small x small is inside the block above
      if (!r.take()) continue;
      gcd_case<T>(r, tn, (T)all[i], (T)all[j]);
    }
  }
}

// {0,1,2,3,6} and 2^k-1, 2^k, 2^k+1, 3*2^k, 6*2^k for every k below the width, clipped to [0, max(T)], ascending
template <class T>
std::vector<uint64_t> power_alphabet() {
  const u128 maxv = (u128)(uint64_t)std::numeric_limits<T>::max();
  std::set<uint64_t> s = {0, 1, 2, 3, 6};
  for (unsigned k = 0; k < sizeof(T) * 8; k++) {
    u128 p = (u128)1 << k;
    for (u128 v : {p - 1, p, p + 1, 3 * p, 6 * p}) if (v <= maxv) s.insert((uint64_t)v);
  }
  s.insert((uint64_t)maxv);
  s.insert((uint64_t)maxv - 1);
  return std::vector<uint64_t>(s.begin(), s.end());
}

// all ordered pairs of the power alphabet: operands in different size classes of the type (2^31 vs 2^32-1 in a 64-bit
// type, 2^15 in a 32-bit type, ...), which neither the [0,300]^2 block nor the type's own limits reach
template <class T>
void gcd_grid(vf::Run& r, const char* tn) {
  r.note(std::string("gcd<") + tn + "> power grid");
  std::vector<uint64_t> B = power_alphabet<T>();
  for (uint64_t a : B) {
    for (uint64_t b : B) {
      if (!r.take()) continue;
      gcd_case<T>(r, tn, (T)a, (T)b);
    }
  }
  if (r.shard == 0) r.counters[std::string("grid_alphabet<") + tn + ">"] = B.size();
}

// Histories: gcd/reduce_fraction are pure, so a call must give the same answer whatever was computed before it.
// Every ordered pair (p, q) of operand pairs runs as gcd(p) gcd(q) gcd(p) reduce(q) reduce(p) gcd(q); every ordered
// triple of a smaller set as gcd(p) gcd(q) gcd(s) reduce(p) reduce(q) reduce(s).  Oracle per call: libstdc++ std::gcd.
template <class T>
struct GcdHist {
  vf::Run& r;
  const char* tn;
  bool bad = false;
  typedef std::pair<uint64_t, uint64_t> PQ;
  std::vector<std::pair<char, PQ>> calls;
  std::string hstr() const {
    std::string s;
    for (auto& c : calls) s += vf::fmt(" %s(%llu,%llu)", c.first == 'g' ? "gcd" : "reduce_fraction", (unsigned long long)c.second.first, (unsigned long long)c.second.second);
    return s.empty() ? " (none)" : s;
  }
  void one_gcd(PQ p) {
    T g = 0;
    r.poison_errno();
    int sig = trapped([&] { g = phosg::gcd<T>((T)p.first, (T)p.second); });
    uint64_t want = std::gcd(p.first, p.second);
    if (sig || g < 0 || (uint64_t)g != want) {
      bad = true;
      r.fail(std::string("gcd<") + tn + ">:wrong-value-in-history", [&] { return vf::fmt("gcd<%s>(%llu, %llu) %s, expected %llu; calls before it in this history:%s", tn, (unsigned long long)p.first, (unsigned long long)p.second, sig ? "raised SIGFPE" : ("returned " + s128(g)).c_str(), (unsigned long long)want, hstr().c_str()); });
    }
    calls.push_back({'g', p});
  }
  void one_reduce(PQ p) {
    if (p.first == 0 && p.second == 0) return;
    std::pair<T, T> f(0, 0);
    r.poison_errno();
    int sig = trapped([&] { f = phosg::reduce_fraction<T>((T)p.first, (T)p.second); });
    uint64_t g = std::gcd(p.first, p.second);
    if (sig || f.first < 0 || f.second < 0 || (uint64_t)f.first != p.first / g || (uint64_t)f.second != p.second / g) {
      bad = true;
      r.fail(std::string("reduce_fraction<") + tn + ">:wrong-value-in-history", [&] { return vf::fmt("reduce_fraction<%s>(%llu, %llu) %s, expected (%llu, %llu); calls before it in this history:%s", tn, (unsigned long long)p.first, (unsigned long long)p.second, sig ? "raised SIGFPE" : ("returned (" + s128(f.first) + ", " + s128(f.second) + ")").c_str(), (unsigned long long)(p.first / g), (unsigned long long)(p.second / g), hstr().c_str()); });
    }
    calls.push_back({'r', p});
  }
};

template <class T>
void gcd_histories(vf::Run& r, const char* tn) {
  r.note(std::string("gcd<") + tn + "> histories");
  const unsigned w = sizeof(T) * 8;
  const uint64_t maxv = (uint64_t)std::numeric_limits<T>::max();
  auto pairs_of = [&](std::vector<u128> vals) {
    std::set<uint64_t> s;
    for (u128 v : vals) if (v <= maxv) s.insert((uint64_t)v);
    std::vector<std::pair<uint64_t, uint64_t>> out;
    for (uint64_t a : s) for (uint64_t b : s) out.push_back({a, b});
    return out;
  };
  u128 h = (u128)1 << (w / 2);
  auto P2 = pairs_of({0, 1, 2, 6, h / 2, h - 1, h, 3 * (h / 2), (u128)1 << (w - 2), (u128)1 << (w - 1), (u128)maxv - 1, maxv});
  auto P3 = pairs_of({0, 6, h, 3 * (h / 2), maxv});
  GcdHist<T> H{r, tn, false, {}};
  for (auto& p : P2) {
    for (auto& q : P2) {
      if (!r.take()) continue;
      if (r.wants_desc()) r.desc(vf::fmt("history on <%s>: gcd(p) gcd(q) gcd(p) reduce_fraction(q) reduce_fraction(p) gcd(q) with p=(%llu,%llu) q=(%llu,%llu)", tn, (unsigned long long)p.first, (unsigned long long)p.second, (unsigned long long)q.first, (unsigned long long)q.second));
      H.bad = false;
      H.calls.clear();
      H.one_gcd(p); H.one_gcd(q); H.one_gcd(p); H.one_reduce(q); H.one_reduce(p); H.one_gcd(q);
      r.nontriv();
      if (!H.bad) r.ok(p == q ? "history: same operands repeated" : (p.first == q.first || p.second == q.second) ? "history: operand pairs share one operand" : "history: different operand pairs");
    }
  }
  for (auto& p : P3) {
    for (auto& q : P3) {
      for (auto& s : P3) {
        if (!r.take()) continue;
        if (r.wants_desc()) r.desc(vf::fmt("history on <%s>: gcd(p) gcd(q) gcd(s) reduce_fraction(p) reduce_fraction(q) reduce_fraction(s) with p=(%llu,%llu) q=(%llu,%llu) s=(%llu,%llu)", tn, (unsigned long long)p.first, (unsigned long long)p.second, (unsigned long long)q.first, (unsigned long long)q.second, (unsigned long long)s.first, (unsigned long long)s.second));
        H.bad = false;
        H.calls.clear();
        H.one_gcd(p); H.one_gcd(q); H.one_gcd(s); H.one_reduce(p); H.one_reduce(q); H.one_reduce(s);
        r.nontriv();
        if (!H.bad) r.ok("history: three operand pairs");
      }
    }
  }
}

// ------------------------------------------------------------------------------------------------
// log2i
// ------------------------------------------------------------------------------------------------

template <class T>
inline bool log2i_ok(T v, T e) {
  // defining equation of floor(log2 v): 2^e <= v < 2^(e+1)  <=>  0 <= e < width and (v >> e) == 1
  if (e < 0 || (uint64_t)e >= sizeof(T) * 8) return false;
  return ((uint64_t)v >> (unsigned)e) == 1;
}

inline int ref_log2(uint64_t v) {
  int e = -1;
  while (v) { v >>= 1; e++; }
  return e;
}

template <class T>
void log2i_case(vf::Run& r, const char* tn, T v) {
  if (r.wants_desc()) r.desc(vf::fmt("log2i<%s>(%s)", tn, s128(v).c_str()));
  T e = phosg::log2i<T>(v);
  r.nontriv();
  T x = v;
  x = phosg::log2i<T>(x);  // the result overwrites the argument
  if (x != e) {
    r.fail(std::string("log2i<") + tn + ">:aliased-form-differs", [&] { return vf::fmt("x = log2i<%s>(x) with x = %s gave %s, into a separate object %s", tn, s128(v).c_str(), s128(x).c_str(), s128(e).c_str()); });
  } else if (!log2i_ok<T>(v, e)) {
    r.fail(std::string("log2i<") + tn + ">:wrong-value", [&] { return vf::fmt("log2i<%s>(%s) returned %s, floor(log2 v) is %d", tn, s128(v).c_str(), s128(e).c_str(), ref_log2((uint64_t)v)); });
  } else r.ok((((uint64_t)v & ((uint64_t)v - 1)) == 0) ? "exact power of two" : "between powers of two");
}

template <class T>
void log2i_type(vf::Run& r, const char* tn) {
  r.note(std::string("log2i<") + tn + ">");
  const uint64_t maxv = (uint64_t)std::numeric_limits<T>::max();
  // all positive values up to 2^16 (complete for 8- and 16-bit types)
  uint64_t lim = maxv < 65536 ? maxv : 65536;
  for (uint64_t v = 1; v <= lim; v++) {
    if (!r.take()) continue;
    log2i_case<T>(r, tn, (T)v);
  }
  for (unsigned k = 0; k < sizeof(T) * 8; k++) {
    for (int dlt = -1; dlt <= 1; dlt++) {
      u128 v = ((u128)1 << k) + dlt;
      if (v < 1 || v > maxv) continue;
      if (!r.take()) continue;
      log2i_case<T>(r, tn, (T)(uint64_t)v);
    }
  }
  if (!r.take()) return;
  log2i_case<T>(r, tn, (T)maxv);
}

template <class T>
void log2i_lanes(vf::Run& r, const char* tn) {
  static const uint8_t L5[5] = {0x00, 0x01, 0x7F, 0x80, 0xFF};
  const uint64_t maxv = (uint64_t)std::numeric_limits<T>::max();
  for (vf::Odometer o(std::vector<uint32_t>(sizeof(T), 5)); !o.done; o.step()) {
    uint64_t v = 0;
    for (size_t i = 0; i < sizeof(T); i++) v |= (uint64_t)L5[o.d[i]] << (8 * i);
    if (v == 0 || v > maxv) continue;
    if (!r.take()) continue;
    log2i_case<T>(r, tn, (T)v);
  }
}

// values with two bits set (2^j + 2^i: covers 3*2^k, 5*2^k, ...) and runs of ones (2^(j+1) - 2^i)
template <class T>
void log2i_twobit(vf::Run& r, const char* tn) {
  r.note(std::string("log2i<") + tn + "> two-bit values");
  const u128 maxv = (u128)(uint64_t)std::numeric_limits<T>::max();
  for (unsigned j = 1; j < sizeof(T) * 8; j++) {
    for (unsigned i = 0; i < j; i++) {
      for (u128 v : {((u128)1 << j) + ((u128)1 << i), ((u128)1 << (j + 1)) - ((u128)1 << i)}) {
        if (v > maxv) continue;
        if (!r.take()) continue;
        log2i_case<T>(r, tn, (T)(uint64_t)v);
      }
    }
  }
}

// histories u, v, u over all ordered pairs of {2^k-1, 2^k, 2^k+1, max}: a pure function answers the same after any call
template <class T>
void log2i_histories(vf::Run& r, const char* tn) {
  r.note(std::string("log2i<") + tn + "> histories");
  const u128 maxv = (u128)(uint64_t)std::numeric_limits<T>::max();
  std::set<uint64_t> bs;
  for (unsigned k = 0; k < sizeof(T) * 8; k++)
    for (int dlt = -1; dlt <= 1; dlt++) {
      u128 v = ((u128)1 << k) + dlt;
      if (v >= 1 && v <= maxv) bs.insert((uint64_t)v);
    }
  bs.insert((uint64_t)maxv);
  std::vector<uint64_t> B(bs.begin(), bs.end());
  for (uint64_t u : B) {
    for (uint64_t v : B) {
      if (!r.take()) continue;
      if (r.wants_desc()) r.desc(vf::fmt("history log2i<%s>(%llu), log2i(%llu), log2i(%llu)", tn, (unsigned long long)u, (unsigned long long)v, (unsigned long long)u));
      r.poison_errno();
      T e1 = phosg::log2i<T>((T)u), e2 = phosg::log2i<T>((T)v), e3 = phosg::log2i<T>((T)u);
      r.nontriv();
      if (!log2i_ok<T>((T)u, e1) || !log2i_ok<T>((T)v, e2) || !log2i_ok<T>((T)u, e3)) {
        r.fail(std::string("log2i<") + tn + ">:wrong-value-in-history", [&] { return vf::fmt("log2i<%s> called on %llu, %llu, %llu returned %s, %s, %s; floor(log2) is %d, %d, %d", tn, (unsigned long long)u, (unsigned long long)v, (unsigned long long)u, s128(e1).c_str(), s128(e2).c_str(), s128(e3).c_str(), ref_log2(u), ref_log2(v), ref_log2(u)); });
      } else r.ok(u == v ? "history: same value" : u > v ? "history: larger then smaller then larger" : "history: smaller then larger then smaller");
    }
  }
}

// ------------------------------------------------------------------------------------------------
// owned entropy: read() on the /dev/urandom descriptor serves an enumerated stream
// ------------------------------------------------------------------------------------------------

enum StreamKind { ST_OFF = 0, ST_CONST, ST_DIGIT, ST_SHIFT };
// what the fail_at-th read() on the urandom descriptor answers instead of a complete read
enum FailMode { FM_NONE = 0, FM_EINTR, FM_EIO, FM_SHORT_HALF, FM_SHORT_ONE_LESS, FM_ZERO };
struct Stream {
  int kind = ST_OFF;
  unsigned param = 0;
  unsigned fail_at = 0;  // 1-based index of the read that fails; 0 = none
  int fail_mode = FM_NONE;
  uint64_t served = 0;  // bytes served so far == absolute position of the next byte
  uint64_t reads = 0;
  inline uint8_t at(uint64_t i) const {
    switch (kind) {
      case ST_CONST: return (uint8_t)param;
      case ST_DIGIT: return (uint8_t)(i >> (8 * param));  // param-th base-256 digit of the position
      case ST_SHIFT: return (uint8_t)(param + i);
    }
    return 0;
  }
  std::string name() const {
    std::string s = "off";
    switch (kind) {
      case ST_CONST: s = vf::fmt("constant %02X", param); break;
      case ST_DIGIT: s = param == 0 ? std::string("counter (byte i = i mod 256)") : vf::fmt("position digit %u (byte i = (i >> %u) mod 256)", param, 8 * param); break;
      case ST_SHIFT: s = vf::fmt("shifted counter (byte i = (%u + i) mod 256)", param); break;
    }
    static const char* FM[] = {"", "fails with EINTR", "fails with EIO", "returns half of the bytes", "returns one byte less", "returns 0 (end of file)"};
    if (fail_at) s += vf::fmt("; read #%u %s", fail_at, FM[fail_mode]);
    return s;
  }
};
Stream g_stream;
int g_ambient_errno = 0;  // set in the child before every call under test (ambient errno is part of the environment)

bool is_urandom(int fd) {
  struct stat st;
  if (fstat(fd, &st) != 0) return false;
  return S_ISCHR(st.st_mode) && major(st.st_rdev) == 1 && minor(st.st_rdev) == 9;
}

}  // namespace

extern "C" ssize_t __real_read(int fd, void* buf, size_t n);
extern "C" ssize_t __wrap_read(int fd, void* buf, size_t n) {
  if (g_stream.kind != ST_OFF && is_urandom(fd)) {
    g_stream.reads++;
    size_t give = n;
    if (g_stream.fail_at && g_stream.reads == g_stream.fail_at) {
      switch (g_stream.fail_mode) {
        case FM_EINTR: errno = EINTR; return -1;
        case FM_EIO: errno = EIO; return -1;
        case FM_SHORT_HALF: give = n / 2; break;
        case FM_SHORT_ONE_LESS: give = n ? n - 1 : 0; break;
        case FM_ZERO: give = 0; break;
      }
    }
    uint8_t* p = (uint8_t*)buf;
    for (size_t i = 0; i < give; i++) p[i] = g_stream.at(g_stream.served + i);
    g_stream.served += give;
    return (ssize_t)give;
  }
  return __real_read(fd, buf, n);
}

namespace {

// Runs fn(out) in a forked child (pristine copy of the parent, which never touches random_data);
// the child ships `out` through a pipe.  Returns false if the child died or reported an exception.
struct ChildResult {
  bool ok = false;
  std::string data, why;
  uint64_t served() const { return *(const uint64_t*)(data.data() + 1); }
  uint64_t reads() const { return *(const uint64_t*)(data.data() + 9); }
};

template <class F>
ChildResult run_child(const Stream& st, int ambient_errno, F&& fn, unsigned timeout_s = 60) {
  ChildResult res;
  int pfd[2];
  if (pipe(pfd) != 0) { res.why = "pipe failed"; return res; }
  fflush(stdout);
  fflush(stderr);
  pid_t pid = fork();
  if (pid < 0) { res.why = "fork failed"; close(pfd[0]); close(pfd[1]); return res; }
  if (pid == 0) {
    close(pfd[0]);
    alarm(timeout_s);
    signal(SIGFPE, SIG_DFL);  // a division trap ends the child with SIGFPE itself (no sanitizer report in between)
    g_stream = st;
    g_stream.served = 0;
    g_stream.reads = 0;
    g_ambient_errno = ambient_errno;
    std::string out;
    char tag = 'K';
    try {
      fn(out);
    } catch (const std::exception& e) {
      tag = 'X';
      out = e.what();
    } catch (...) {
      tag = 'X';
      out = "non-standard exception";
    }
    uint64_t hdr[2] = {g_stream.served, g_stream.reads};
    g_stream.kind = ST_OFF;
    std::string msg(1, tag);
    msg.append((const char*)hdr, sizeof(hdr));
    msg += out;
    size_t off = 0;
    while (off < msg.size()) {
      ssize_t w = write(pfd[1], msg.data() + off, msg.size() - off);
      if (w <= 0) _exit(4);
      off += (size_t)w;
    }
    _exit(0);
  }
  close(pfd[1]);
  char buf[65536];
  for (;;) {
    ssize_t n = read(pfd[0], buf, sizeof(buf));
    if (n > 0) res.data.append(buf, (size_t)n);
    else if (n == 0) break;
    else if (errno != EINTR) break;
  }
  close(pfd[0]);
  int status = 0;
  while (waitpid(pid, &status, 0) < 0 && errno == EINTR) {}
  if (!WIFEXITED(status) || WEXITSTATUS(status) != 0) {
    res.why = WIFSIGNALED(status) ? vf::fmt("child killed by signal %d (%s)", WTERMSIG(status), strsignal(WTERMSIG(status))) : vf::fmt("child exited with status %d", WEXITSTATUS(status));
    return res;
  }
  if (res.data.size() < 17) { res.why = "child sent a short report"; return res; }
  if (res.data[0] == 'X') { res.why = "exception: " + res.data.substr(17); return res; }
  res.ok = true;
  return res;
}

// In the child, after some requests: continue in a grandchild (fork copies the thread-local buffer and the open
// descriptor); the intermediate process only relays the exit status, the grandchild writes the report.
void continue_in_forked_copy() {
  fflush(stdout);
  fflush(stderr);
  pid_t g = fork();
  if (g < 0) _exit(6);
  if (g > 0) {
    int st = 0;
    while (waitpid(g, &st, 0) < 0 && errno == EINTR) {}
    _exit(WIFEXITED(st) ? WEXITSTATUS(st) : 5);
  }
  alarm(60);
}

struct Pair { int64_t lo, hi; };

std::vector<Pair> random_int_pairs(bool small_only) {
  // hi - lo from a boundary set (every width-selection threshold of random_int +- 1) x lo from a boundary set
  static const uint64_t D[] = {0, 1, 2, 254, 255, 256, 65534, 65535, 65536, 0xFFFFFFFEull, 0xFFFFFFFFull, 0x100000000ull,
      1ull << 62, (1ull << 63) - 2, (1ull << 63) - 1};
  std::vector<Pair> out;
  for (uint64_t d : D) {
    if (small_only && d > 255) continue;
    std::vector<int64_t> los = {INT64_MIN, -1, 0, 1, (int64_t)((uint64_t)INT64_MAX - d)};
    if (d < 1000) { los.push_back(-(int64_t)d); los.push_back(-(int64_t)(d / 2)); los.push_back(1000); }
    std::set<int64_t> seen;
    for (int64_t lo : los) {
      if ((i128)lo + (i128)d > (i128)INT64_MAX) continue;
      if (!seen.insert(lo).second) continue;
      out.push_back({lo, (int64_t)((uint64_t)lo + d)});
    }
  }
  return out;
}

// every span hi-lo in {2^k-2, 2^k-1, 2^k, 2^k+1 : k = 1..63} below 2^63, ascending
std::vector<uint64_t> span_grid() {
  std::set<uint64_t> s;
  for (unsigned k = 1; k <= 63; k++)
    for (int dlt = -2; dlt <= 1; dlt++) {
      u128 d = ((u128)1 << k) + dlt;
      if (d < ((u128)1 << 63)) s.insert((uint64_t)d);
    }
  return std::vector<uint64_t>(s.begin(), s.end());
}
// all (lo, lo+d) for lo in {INT64_MIN, -2^32, -1, 0, 1, 2^31, 2^32, INT64_MAX-d} that do not overflow
std::vector<Pair> pairs_for_span(uint64_t d) {
  std::vector<Pair> out;
  std::set<int64_t> seen;
  for (int64_t lo : std::initializer_list<int64_t>{INT64_MIN, -(1ll << 32), -1, 0, 1, 1ll << 31, 1ll << 32, (int64_t)((uint64_t)INT64_MAX - d)}) {
    if ((i128)lo + (i128)d > (i128)INT64_MAX) continue;
    if (!seen.insert(lo).second) continue;
    out.push_back({lo, (int64_t)((uint64_t)lo + d)});
  }
  return out;
}

std::string pair_str(const Pair& p) { return vf::fmt("random_int(%lld, %lld)", (long long)p.lo, (long long)p.hi); }

const size_t CANARY = 16;
const uint8_t SENTINEL = 0xA5;

// child side of one random_data history: each request gets its own heap frame
// [16 canary][size sentinel bytes][16 canary]; frames are shipped back verbatim.  Per request the report holds
// [1 tag: K returned / T threw][8 size][frame or string].  fork_after = n > 0: after the n-th request the history
// continues in a forked copy of the process.  catch_each: an exception ends only that request (failing-read plans).
void rd_history_child(const std::vector<size_t>& sizes, bool string_overload, size_t fork_after, bool catch_each, std::string& out) {
  size_t done = 0;
  for (size_t sz : sizes) {
    if (fork_after && done == fork_after) continue_in_forked_copy();
    done++;
    std::string frame(CANARY + sz + CANARY, (char)SENTINEL);
    for (size_t i = 0; i < CANARY; i++) {
      frame[i] = (char)(0xC0 + i);
      frame[CANARY + sz + i] = (char)(0xD0 + i);
    }
    char tag = 'K';
    std::string s;
    try {
      errno = g_ambient_errno;
      if (string_overload) s = phosg::random_data(sz);
      // written in place: a stray write within 16 bytes lands on a canary, further out on an ASan redzone
      else phosg::random_data(frame.data() + CANARY, sz);
    } catch (const std::exception&) {
      if (!catch_each) throw;
      tag = 'T';
    }
    out += tag;
    uint64_t n = string_overload ? s.size() : sz;
    out.append((const char*)&n, 8);
    out += string_overload ? s : frame;
  }
}

std::string sizes_str(const std::vector<size_t>& v) {
  std::string s = "[";
  for (size_t i = 0; i < v.size(); i++) s += (i ? ", " : "") + std::to_string(v[i]);
  return s + "]";
}

}  // namespace

// ================================================================================================

#define EACH_INT_TYPE(F)                                                                  \
  F(int8_t, "int8_t") F(uint8_t, "uint8_t") F(int16_t, "int16_t") F(uint16_t, "uint16_t") \
  F(int32_t, "int32_t") F(uint32_t, "uint32_t") F(int64_t, "int64_t") F(uint64_t, "uint64_t")
#define F32_64(F) F(int32_t, "int32_t") F(uint32_t, "uint32_t") F(int64_t, "int64_t") F(uint64_t, "uint64_t")

#define EACH_GCD_TYPE(F) EACH_INT_TYPE(F) F(long long, "long long") F(unsigned long long, "unsigned long long")

VF_SECTION(gcd, 8, 8, 90) {
#define G(T, N) gcd_type<T>(r, N);
  EACH_INT_TYPE(G)
#undef G
  r.bound = "gcd and reduce_fraction for each of the 8 integer widths: all pairs in [0,300]^2 clipped to the type, plus all (boundary x boundary/small) pairs of {max, max-1, max-2, max/2, max/2+1, 2^(w-1), ...}; non-negative operands; reduce_fraction(0,0) not called";
}

VF_SECTION(gcd_grid, 16, 16, 90) {
#define G(T, N) gcd_grid<T>(r, N);
  EACH_GCD_TYPE(G)
#undef G
  r.bound = "gcd and reduce_fraction for the 8 fixed-width integer types plus long long / unsigned long long: ALL ordered pairs of {0,1,2,3,6} U {2^k-1, 2^k, 2^k+1, 3*2^k, 6*2^k : k < width} U {max-1, max} clipped to the type (non-negative); each call runs with SIGFPE turned into an outcome";
}

VF_SECTION(gcd_hist, 16, 16, 90) {
#define G(T, N) gcd_histories<T>(r, N);
  EACH_GCD_TYPE(G)
#undef G
  r.bound = "histories of gcd/reduce_fraction calls on one thread for 10 integer types: every ordered pair (p,q) of the 121-144 operand pairs over {0,1,2,6,2^(w/2-1),2^(w/2)-1,2^(w/2),3*2^(w/2-1),2^(w-2),2^(w-1),max-1,max} as gcd(p) gcd(q) gcd(p) reduce(q) reduce(p) gcd(q); every ordered triple of the 25 pairs over {0,6,2^(w/2),3*2^(w/2-1),max} as gcd x3 then reduce_fraction x3; every result compared with libstdc++ std::gcd";
}

VF_SECTION(log2i, 4, 4, 90) {
#define G(T, N) log2i_type<T>(r, N);
  EACH_INT_TYPE(G)
#undef G
#define G(T, N) r.note("log2i<" N "> lanes"); log2i_lanes<T>(r, N);
  F32_64(G)
#undef G
#define G(T, N) log2i_twobit<T>(r, N);
  EACH_INT_TYPE(G)
#undef G
  r.bound = "log2i for 8 integer widths: every positive value up to 2^16 (complete for 8/16-bit), 2^k and 2^k+-1 for every k, type max; 32/64-bit: every positive value with byte lanes from {00,01,7F,80,FF}; every value with two bits set and every run of ones (2^(j+1)-2^i)";
}

VF_SECTION(log2i_hist, 4, 4, 90) {
#define G(T, N) log2i_histories<T>(r, N);
  EACH_INT_TYPE(G)
#undef G
  r.bound = "histories log2i(u) log2i(v) log2i(u) for all ordered pairs (u,v) of {2^k-1, 2^k, 2^k+1 : k < width} U {max}, 8 integer types; every result must satisfy the defining equation";
}

// thorough only: all 2^32 values of uint32_t (and the positive half for int32_t), 65536 values per case
VF_SECTION(log2i_all32, 0, 16, 120) {
  r.note("log2i<uint32_t> all values");
  uint64_t wrong_u = 0, wrong_s = 0;
  for (uint64_t blk = 0; blk < 65536; blk++) {
    if (!r.take()) continue;
    if (r.wants_desc()) r.desc(vf::fmt("log2i<uint32_t> and log2i<int32_t> on every value of [%llu, %llu]", (unsigned long long)(blk << 16), (unsigned long long)((blk << 16) + 65535)));
    uint64_t first_bad_u = 0, first_bad_s = 0;
    bool bu = false, bs = false;
    for (uint64_t v = blk << 16; v < (blk + 1) << 16; v++) {
      if (v == 0) continue;
      uint32_t e = phosg::log2i<uint32_t>((uint32_t)v);
      if (!log2i_ok<uint32_t>((uint32_t)v, e)) { if (!bu) first_bad_u = v; bu = true; wrong_u++; }
      if (v <= INT32_MAX) {
        int32_t es = phosg::log2i<int32_t>((int32_t)v);
        if (!log2i_ok<int32_t>((int32_t)v, es)) { if (!bs) first_bad_s = v; bs = true; wrong_s++; }
        r.transitions++;
      }
      r.transitions++;
    }
    r.nontriv();
    if (bu) r.fail("log2i<uint32_t>:wrong-value", [&] { return vf::fmt("log2i<uint32_t>(%llu) returned %u, floor(log2 v) is %d", (unsigned long long)first_bad_u, phosg::log2i<uint32_t>((uint32_t)first_bad_u), ref_log2(first_bad_u)); });
    if (bs) r.fail("log2i<int32_t>:wrong-value", [&] { return vf::fmt("log2i<int32_t>(%llu) returned %d, floor(log2 v) is %d", (unsigned long long)first_bad_s, phosg::log2i<int32_t>((int32_t)first_bad_s), ref_log2(first_bad_s)); });
    if (!bu && !bs) r.ok("block of 65536 values correct");
  }
  r.states = r.transitions;
  r.counters["values"] += r.transitions;
  r.bound = "log2i<uint32_t> on all 2^32-1 positive values, log2i<int32_t> on all 2^31-1 positive values";
}

// ---- random_int: result within [lo,hi] under every owned stream; onto for ranges <= 256 -----------
VF_SECTION(random_int, 16, 16, 150) {
  r.note("random_int");
  std::vector<Pair> pairs = random_int_pairs(false);
  std::vector<Stream> base;
  for (unsigned c : {0x00u, 0xFFu, 0x80u, 0x7Fu, 0x01u}) { Stream s; s.kind = ST_CONST; s.param = c; base.push_back(s); }
  for (unsigned k : {0u, 1u, 2u}) { Stream s; s.kind = ST_DIGIT; s.param = k; base.push_back(s); }

  auto check_results = [&](const Stream& st, const std::vector<Pair>& ps, const ChildResult& cr, const char* what, size_t skip = 0) {
    if (!cr.ok) {
      r.fail("random_int:child-died", [&] { return vf::fmt("%s%s under stream '%s': %s", ps.size() == 1 ? (pair_str(ps[0]) + " as ").c_str() : "", what, st.name().c_str(), cr.why.c_str()); });
      return false;
    }
    const int64_t* res = (const int64_t*)(cr.data.data() + 17 + skip);
    size_t n = (cr.data.size() - 17 - skip) / 8;
    bool bad = n != ps.size();
    for (size_t i = 0; i < n && i < ps.size(); i++) {
      r.counters["random_int_calls"]++;
      if (res[i] < ps[i].lo || res[i] > ps[i].hi) {
        bad = true;
        r.fail("random_int:out-of-range", [&] { return vf::fmt("%s returned %lld under stream '%s' (%s, call #%zu in the child)", pair_str(ps[i]).c_str(), (long long)res[i], st.name().c_str(), what, i); });
      }
    }
    return !bad;
  };
  auto call_all = [&](const std::vector<Pair>& ps) {
    return [&ps](std::string& out) {
      for (auto& p : ps) {
        errno = g_ambient_errno;
        int64_t v = phosg::random_int(p.lo, p.hi);
        out.append((const char*)&v, 8);
      }
    };
  };
  // a list of calls in one child; when the child dies, every call again in a child of its own to name the culprit
  auto run_list = [&](const Stream& st, const std::vector<Pair>& ps, const char* what) {
    ChildResult cr = run_child(st, r.ambient_errno(), call_all(ps), 20);
    if (cr.ok) return check_results(st, ps, cr, what);
    bool located = false;
    for (auto& p : ps) {
      std::vector<Pair> one = {p};
      ChildResult c1 = run_child(st, r.ambient_errno(), call_all(one), 20);
      if (!check_results(st, one, c1, "first call")) located = true;
    }
    if (!located) check_results(st, ps, cr, what);
    return false;
  };
  auto width_class = [](const Pair& p) {
    uint64_t d = (uint64_t)p.hi - (uint64_t)p.lo;
    return d < 255 ? "8-bit draw" : d < 65535 ? "16-bit draw" : d < 0xFFFFFFFFull ? "32-bit draw" : "64-bit draw";
  };

  // (A) each (stream, pair) as the very first call of a fresh child
  for (auto& st : base) {
    for (auto& p : pairs) {
      if (!r.take()) continue;
      if (r.wants_desc()) r.desc(pair_str(p) + " as the first call in a pristine process, urandom stream: " + st.name());
      std::vector<Pair> one = {p};
      ChildResult cr = run_child(st, r.ambient_errno(), call_all(one), 20);
      r.nontriv();
      if (check_results(st, one, cr, "first call")) r.ok(std::string("first call: ") + width_class(p));
    }
  }
  // (A2) span grid: hi-lo in {2^k-2 .. 2^k+1} for every k <= 63, each with every boundary lo; one child per (stream, span)
  std::vector<uint64_t> spans = span_grid();
  size_t grid_pairs = 0;
  for (uint64_t d : spans) grid_pairs += pairs_for_span(d).size();
  for (auto& st : base) {
    for (uint64_t d : spans) {
      if (!r.take()) continue;
      std::vector<Pair> ps = pairs_for_span(d);
      if (r.wants_desc()) r.desc(vf::fmt("random_int(lo, lo+%llu) for the %zu boundary values of lo in one pristine process, urandom stream: %s", (unsigned long long)d, ps.size(), st.name().c_str()));
      r.nontriv();
      if (run_list(st, ps, "span grid")) r.ok(std::string("span grid: ") + width_class(ps[0]));
    }
  }
  // (B) the whole pair list as one history (buffer in every fill state), forwards and backwards
  for (auto& st : base) {
    for (int rev = 0; rev < 2; rev++) {
      if (!r.take()) continue;
      std::vector<Pair> ps = pairs;
      if (rev) std::reverse(ps.begin(), ps.end());
      if (r.wants_desc()) r.desc(vf::fmt("history of %zu random_int calls over the boundary (lo,hi) list%s, urandom stream: %s", ps.size(), rev ? " reversed" : "", st.name().c_str()));
      ChildResult cr = run_child(st, r.ambient_errno(), call_all(ps));
      r.nontriv();
      if (check_results(st, ps, cr, "history")) r.ok("history of calls: all in range");
    }
  }
  // (C) ranges <= 256: over the 256 shifted-counter streams (every consumed byte takes every value, whatever stream
  // position a call consumes) the results of every call cover [lo,hi] completely.  One case = one span = 256 children,
  // each making the calls for all boundary lo.
  std::vector<uint64_t> small_spans;
  {
    std::set<uint64_t> s = {0, 1, 2, 254, 255};
    for (uint64_t d : spans) if (d <= 255) s.insert(d);
    small_spans.assign(s.begin(), s.end());
  }
  for (uint64_t d : small_spans) {
    if (!r.take()) continue;
    std::vector<Pair> ps = pairs_for_span(d);
    for (int64_t lo : std::initializer_list<int64_t>{-(int64_t)d, -(int64_t)(d / 2), 1000}) ps.push_back({lo, (int64_t)(lo + (int64_t)d)});
    if (r.wants_desc()) r.desc(vf::fmt("random_int(lo, lo+%llu) for %zu values of lo under each of the 256 shifted-counter streams: results must lie in [lo,hi] and cover it", (unsigned long long)d, ps.size()));
    std::vector<std::set<int64_t>> seen(ps.size());
    bool bad = false;
    for (unsigned b = 0; b < 256; b++) {
      Stream st; st.kind = ST_SHIFT; st.param = b;
      ChildResult cr = run_child(st, r.ambient_errno(), call_all(ps), 20);
      if (!check_results(st, ps, cr, "onto sweep")) { bad = true; if (!cr.ok) break; continue; }
      for (size_t i = 0; i < ps.size(); i++) seen[i].insert(((const int64_t*)(cr.data.data() + 17))[i]);
    }
    r.nontriv();
    for (size_t i = 0; i < ps.size() && !bad; i++) {
      if (seen[i].size() != d + 1) {
        bad = true;
        const Pair& p = ps[i];
        r.fail("random_int:not-onto", [&] {
          std::string miss;
          for (int64_t v = p.lo; v <= p.hi && miss.size() < 60; v++) if (!seen[i].count(v)) miss += vf::fmt(" %lld", (long long)v);
          return vf::fmt("%s: the 256 streams whose consumed byte takes every value 0..255 produce only %zu of the %llu values; never returned:%s", pair_str(p).c_str(), seen[i].size(), (unsigned long long)(d + 1), miss.c_str());
        });
      }
    }
    if (!bad) r.ok("256 byte values map onto [lo,hi]");
  }
  // (D) random_int right after random_data(n) left 0..9 bytes (or a whole refill) in the buffer: draws that straddle a refill
  {
    const Pair W[4] = {{-100, 100}, {-5, 60000}, {-5, 1ll << 31}, {-(1ll << 62), 1ll << 62}};
    std::vector<size_t> pre = {4087, 4088, 4089, 4090, 4091, 4092, 4093, 4094, 4095, 4096, 8191};
    for (unsigned si : {1u, 5u, 2u}) {  // constant FF, counter, constant 80
      const Stream& st = base[si];
      for (size_t n : pre) {
        if (!r.take()) continue;
        if (r.wants_desc()) r.desc(vf::fmt("random_data(%zu) followed by one random_int call of each draw width, urandom stream: %s", n, st.name().c_str()));
        std::vector<Pair> ps(W, W + 4);
        ChildResult cr = run_child(st, r.ambient_errno(), [&](std::string& out) {
          for (auto& p : ps) {
            std::string junk = phosg::random_data(n);
            errno = g_ambient_errno;
            int64_t v = phosg::random_int(p.lo, p.hi);
            out.append((const char*)&v, 8);
          }
        }, 20);
        r.nontriv();
        if (check_results(st, ps, cr, "after random_data")) r.ok("draw across a refill boundary");
      }
    }
  }
  r.bound = vf::fmt("random_int on %zu boundary (lo,hi) pairs (hi-lo in {0,1,2,254,255,256,65534,65535,65536,2^32-2,2^32-1,2^32,2^62,2^63-2,2^63-1} x lo in {INT64_MIN,-1,0,1,INT64_MAX-d,...}) x 8 owned urandom streams as first call and as one history; "
                    "span grid: hi-lo in {2^k-2,2^k-1,2^k,2^k+1 : k=1..63} (%zu spans) x lo in {INT64_MIN,-2^32,-1,0,1,2^31,2^32,INT64_MAX-d} (%zu pairs) x 8 streams; %zu spans <= 255 x up to 11 lo x 256 shifted streams (onto); "
                    "random_int of each draw width after random_data(n), n in {4087..4096, 8191}, x 3 streams",
      pairs.size(), spans.size(), grid_pairs, small_spans.size());
}

// ---- random_data ------------------------------------------------------------------------------------------------------
struct RdHistory {
  std::vector<size_t> sizes;
  size_t fork_after = 0;
  std::string str() const { return sizes_str(sizes) + (fork_after ? vf::fmt(" (continued in a forked copy of the process after request #%zu)", fork_after - 1) : std::string()); }
};

// parses the report of rd_history_child (pointer overload): per request tag + frame
struct RdReport {
  std::vector<char> tags;
  std::vector<std::string> frames;
  bool parse(const std::string& d, const std::vector<size_t>& h) {
    size_t off = 17;
    for (size_t sz : h) {
      size_t flen = CANARY + sz + CANARY;
      if (off + 9 + flen > d.size() || *(const uint64_t*)(d.data() + off + 1) != sz) return false;
      tags.push_back(d[off]);
      frames.push_back(d.substr(off + 9, flen));
      off += 9 + flen;
    }
    return off == d.size();
  }
  bool canary_ok(size_t j, size_t sz) const {
    const std::string& f = frames[j];
    for (size_t i = 0; i < CANARY; i++) if ((uint8_t)f[i] != 0xC0 + i || (uint8_t)f[CANARY + sz + i] != 0xD0 + i) return false;
    return true;
  }
};

// every history of <=3 requests; positions decoded from three digit streams
VF_SECTION(random_data, 16, 16, 120) {
  r.note("random_data");
  std::vector<size_t> SZ = {0, 1, 2, 3, 4093, 4094, 4095, 4096, 4097, 4098, 8191, 8192, 8193};
  if (r.thorough()) for (size_t x : {12287, 12288, 12289, 65537}) SZ.push_back(x);
  std::vector<RdHistory> hist;
  for (size_t len = 1; len <= 3; len++) {
    for (vf::Odometer o(std::vector<uint32_t>(len, (uint32_t)SZ.size())); !o.done; o.step()) {
      RdHistory h;
      for (size_t i = 0; i < len; i++) h.sizes.push_back(SZ[o.d[len - 1 - i]]);
      hist.push_back(h);
    }
  }
  size_t plain = hist.size();
  // the same process image continued after fork(): histories of 2..3 requests, fork after the 1st or 2nd
  const std::vector<size_t> FSZ = {1, 4095, 4096, 4097};
  for (size_t len = 2; len <= 3; len++) {
    for (vf::Odometer o(std::vector<uint32_t>(len, (uint32_t)FSZ.size())); !o.done; o.step()) {
      for (size_t fa = 1; fa < len; fa++) {
        RdHistory h;
        for (size_t i = 0; i < len; i++) h.sizes.push_back(FSZ[o.d[len - 1 - i]]);
        h.fork_after = fa;
        hist.push_back(h);
      }
    }
  }
  for (auto& H : hist) {
    if (!r.take()) continue;
    const std::vector<size_t>& h = H.sizes;
    if (r.wants_desc()) r.desc("random_data(void*, n) history with sizes " + H.str() + " in a pristine process; urandom streams: position digits 0,1,2, constant 00, constant FF; string overload cross-checked");
    bool bad = false;
    auto die = [&](const std::string& why) { bad = true; r.fail("random_data:child-died", [&] { return "history " + H.str() + ": " + why; }); };
    // three runs whose stream bytes are the three base-256 digits of the stream position
    std::vector<ChildResult> runs;
    std::vector<Stream> sts;
    for (unsigned k = 0; k < 3; k++) { Stream s; s.kind = ST_DIGIT; s.param = k; sts.push_back(s); }
    { Stream s; s.kind = ST_CONST; s.param = 0x00; sts.push_back(s); }
    { Stream s; s.kind = ST_CONST; s.param = 0xFF; sts.push_back(s); }
    for (auto& st : sts) {
      runs.push_back(run_child(st, r.ambient_errno(), [&](std::string& out) { rd_history_child(h, false, H.fork_after, false, out); }));
      r.counters["random_data_calls"] += h.size();
      if (!runs.back().ok) die("stream '" + st.name() + "': " + runs.back().why);
    }
    ChildResult strrun = run_child(sts[0], r.ambient_errno(), [&](std::string& out) { rd_history_child(h, true, H.fork_after, false, out); });
    r.counters["random_data_calls"] += h.size();
    if (!strrun.ok) die("string overload: " + strrun.why);
    if (bad) continue;
    r.nontriv();
    uint64_t served = runs[0].served();
    size_t total = 0;
    for (size_t sz : h) total += sz;
    // parse frames
    std::vector<RdReport> rep(runs.size());
    for (size_t k = 0; k < runs.size() && !bad; k++) {
      if (runs[k].served() != served) {
        bad = true;
        r.fail("random_data:reads-depend-on-data", [&] { return "history " + H.str() + vf::fmt(": %llu bytes read from urandom under stream '%s' but %llu under '%s'", (unsigned long long)runs[k].served(), sts[k].name().c_str(), (unsigned long long)served, sts[0].name().c_str()); });
        break;
      }
      if (!rep[k].parse(runs[k].data, h)) { die("malformed report"); break; }
      for (size_t j = 0; j < h.size(); j++)
        if (!rep[k].canary_ok(j, h[j])) { bad = true; r.fail("random_data:writes-outside-request", [&] { return "history " + H.str() + vf::fmt(": bytes outside the %zu requested ones were modified (stream '%s')", h[j], sts[k].name().c_str()); }); }
    }
    if (bad) continue;
    // constant streams: every requested byte must carry the stream value (sentinel A5 differs from 00 and FF)
    for (size_t k = 3; k < 5 && !bad; k++) {
      for (size_t j = 0; j < h.size() && !bad; j++) {
        for (size_t i = 0; i < h[j]; i++) {
          if ((uint8_t)rep[k].frames[j][CANARY + i] != sts[k].param) {
            bad = true;
            r.fail("random_data:byte-not-from-stream", [&] { return "history " + H.str() + vf::fmt(": request #%zu byte %zu is %02X under stream '%s' (buffer was pre-filled with A5)", j, i, (uint8_t)rep[k].frames[j][CANARY + i], sts[k].name().c_str()); });
            break;
          }
        }
      }
    }
    // digit streams: decode the stream position of every delivered byte
    std::vector<uint8_t> used(served, 0);
    for (size_t j = 0; j < h.size() && !bad; j++) {
      for (size_t i = 0; i < h[j]; i++) {
        uint64_t pos = (uint64_t)(uint8_t)rep[0].frames[j][CANARY + i] | ((uint64_t)(uint8_t)rep[1].frames[j][CANARY + i] << 8) | ((uint64_t)(uint8_t)rep[2].frames[j][CANARY + i] << 16);
        if (pos >= served) {
          bad = true;
          r.fail("random_data:byte-not-from-stream", [&] { return "history " + H.str() + vf::fmt(": request #%zu byte %zu decodes to stream position %llu but only %llu bytes were read from urandom (A5A5A5 = byte left unwritten)", j, i, (unsigned long long)pos, (unsigned long long)served); });
          break;
        }
        if (used[pos]++) {
          bad = true;
          r.fail("random_data:byte-delivered-twice", [&] { return "history " + H.str() + vf::fmt(": stream byte at position %llu was delivered twice (second time as request #%zu byte %zu)", (unsigned long long)pos, j, i); });
          break;
        }
      }
    }
    // string overload: same sizes and the same bytes as the pointer overload under the same stream
    if (!bad) {
      const std::string& d = strrun.data;
      size_t off = 17;
      for (size_t j = 0; j < h.size() && !bad; j++) {
        uint64_t n = off + 9 <= d.size() ? *(const uint64_t*)(d.data() + off + 1) : UINT64_MAX;
        if (n != h[j] || off + 9 + n > d.size()) {
          bad = true;
          r.fail("random_data(string):wrong-size", [&] { return "history " + H.str() + vf::fmt(": request #%zu returned a string of %llu bytes", j, (unsigned long long)n); });
          break;
        }
        if (d.compare(off + 9, n, rep[0].frames[j], CANARY, h[j]) != 0) {
          bad = true;
          r.fail("random_data(string):differs-from-pointer-overload", [&] { return "history " + H.str() + vf::fmt(": request #%zu", j); });
        }
        off += 9 + n;
      }
    }
    r.counters["bytes_requested"] += total;
    r.counters["urandom_bytes_served"] += served;
    if (!bad) r.ok(H.fork_after ? "history continued after fork" : total == 0 ? "history: nothing requested" : served == 4096 ? "history: served from one refill" : served == 0 ? "history: no read" : "history: several refills");
  }
  r.bound = vf::fmt("random_data: every history of 1..3 requests with sizes in %s (%zu histories) plus %zu histories of 2..3 requests over [1, 4095, 4096, 4097] continued in a forked copy of the process after the 1st/2nd request; each replayed in 6 forked children (3 position-digit streams, constant 00, constant FF, string overload)", sizes_str(SZ).c_str(), plain, hist.size() - plain);
}

// ---- random_data when a read() on /dev/urandom fails or comes back short ------------------------------------------------
// Don't-care: whether the affected request (and later ones) throw.  Demanded: no write outside the request, outcomes
// do not depend on the data, a request made while no read has failed returns normally, and every request that returns
// normally has every byte filled from the stream (never a byte the stream did not deliver).
VF_SECTION(random_env, 16, 16, 120) {
  r.note("random_data with failing reads");
  const std::vector<size_t> SZ = {1, 4095, 4097, 8193};
  std::vector<std::vector<size_t>> hist;
  for (size_t len = 1; len <= 3; len++) {
    for (vf::Odometer o(std::vector<uint32_t>(len, (uint32_t)SZ.size())); !o.done; o.step()) {
      std::vector<size_t> h;
      for (size_t i = 0; i < len; i++) h.push_back(SZ[o.d[len - 1 - i]]);
      hist.push_back(h);
    }
  }
  for (auto& h : hist) {
    for (unsigned fail_at = 1; fail_at <= 3; fail_at++) {
      for (int mode : {FM_EINTR, FM_EIO, FM_SHORT_HALF, FM_SHORT_ONE_LESS, FM_ZERO}) {
        if (!r.take()) continue;
        std::vector<Stream> sts;
        for (unsigned k = 0; k < 3; k++) { Stream s; s.kind = ST_DIGIT; s.param = k; sts.push_back(s); }
        { Stream s; s.kind = ST_CONST; s.param = 0xFF; sts.push_back(s); }
        for (auto& s : sts) { s.fail_at = fail_at; s.fail_mode = mode; }
        std::string what = "random_data history " + sizes_str(h) + "; urandom " + sts[3].name().substr(sts[3].name().find(';') + 2);
        if (r.wants_desc()) r.desc(what + "; streams: position digits 0,1,2 and constant FF");
        bool bad = false;
        std::vector<ChildResult> runs;
        std::vector<RdReport> rep(sts.size());
        for (size_t k = 0; k < sts.size() && !bad; k++) {
          runs.push_back(run_child(sts[k], r.ambient_errno(), [&](std::string& out) { rd_history_child(h, false, 0, true, out); }));
          r.counters["random_data_calls"] += h.size();
          if (!runs[k].ok) { bad = true; r.fail("random_data:child-died", [&] { return what + ", stream '" + sts[k].name() + "': " + runs[k].why; }); break; }
          if (!rep[k].parse(runs[k].data, h)) { bad = true; r.fail("random_data:child-died", [&] { return what + ": malformed report"; }); break; }
          for (size_t j = 0; j < h.size(); j++)
            if (!rep[k].canary_ok(j, h[j])) { bad = true; r.fail("random_data:writes-outside-request", [&] { return what + vf::fmt(": bytes outside the %zu requested ones of request #%zu were modified (stream '%s')", h[j], j, sts[k].name().c_str()); }); }
          if (k && (rep[k].tags != rep[0].tags || runs[k].served() != runs[0].served())) { bad = true; r.fail("random_data:reads-depend-on-data", [&] { return what + ": outcomes or bytes read differ between stream '" + sts[k].name() + "' and '" + sts[0].name() + "'"; }); }
        }
        r.nontriv();
        if (bad) continue;
        uint64_t served = runs[0].served();
        bool injected = runs[0].reads() >= fail_at;
        size_t returned = 0;
        for (size_t j = 0; j < h.size() && !bad; j++) {
          if (rep[0].tags[j] != 'K') {
            if (!injected) { bad = true; r.fail("random_data:throws-without-read-failure", [&] { return what + vf::fmt(": request #%zu threw although every read() so far was served completely (%llu reads)", j, (unsigned long long)runs[0].reads()); }); }
            continue;
          }
          returned++;
          for (size_t i = 0; i < h[j]; i++) {
            uint64_t pos = (uint64_t)(uint8_t)rep[0].frames[j][CANARY + i] | ((uint64_t)(uint8_t)rep[1].frames[j][CANARY + i] << 8) | ((uint64_t)(uint8_t)rep[2].frames[j][CANARY + i] << 16);
            uint8_t c = (uint8_t)rep[3].frames[j][CANARY + i];
            if (pos >= served || c != 0xFF) {
              bad = true;
              r.fail(injected ? "random_data:byte-not-from-stream-after-failed-read" : "random_data:byte-not-from-stream", [&] { return what + vf::fmt(": request #%zu returned normally but its byte %zu is %02X under the constant-FF stream and decodes to stream position %llu under the digit streams; only %llu bytes were ever read from urandom (A5 = left unwritten)", j, i, c, (unsigned long long)pos, (unsigned long long)served); });
              break;
            }
          }
        }
        if (!bad) r.ok(!injected ? "failure never reached: all requests returned" : returned == h.size() ? "read failed, every request returned" : returned ? "read failed: some requests threw, the others are filled from the stream" : "read failed: every request threw");
      }
    }
  }
  r.bound = vf::fmt("random_data: every history of 1..3 requests with sizes in %s (%zu) x the 1st/2nd/3rd read() on /dev/urandom answering {EINTR, EIO, half of the bytes, one byte less, 0} x 4 owned streams (requests catch their own exception)", sizes_str(SZ).c_str(), hist.size());
}

VF_MAIN()
