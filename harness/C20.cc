// C20 — integer, vector and matrix helpers satisfy their defining equations.
// E-ENUM over the real templates (gcd, reduce_fraction, log2i, Vector2/3/4, Matrix4) and E-ENV for
// random_int/random_data: the /dev/urandom stream is owned through a link-time wrapped read(), and
// every history over random_data's function-local static buffer starts in a forked child.
#include <fcntl.h>
#include <math.h>
#include <sys/stat.h>
#include <sys/sysmacros.h>
#include <sys/types.h>

#include <array>
#include <limits>
#include <numeric>
#include <set>
#include <string>
#include <tuple>
#include <vector>

#include "Math.hh"  // has no include guard: include exactly once
#include "Random.hh"
#include "Vector.hh"
#include "vf.hh"

using phosg::Matrix4;
using phosg::Vector2;
using phosg::Vector3;
using phosg::Vector4;

typedef unsigned __int128 u128;
typedef __int128 i128;

namespace {

std::string s128(i128 v) {
  if (v == 0) return "0";
  bool neg = v < 0;
  u128 u = neg ? (u128)(-(v + 1)) + 1 : (u128)v;
  std::string s;
  while (u) { s.insert(s.begin(), (char)('0' + (int)(u % 10))); u /= 10; }
  return neg ? "-" + s : s;
}

// ------------------------------------------------------------------------------------------------
// gcd / reduce_fraction
// ------------------------------------------------------------------------------------------------

template <class T>
void gcd_case(vf::Run& r, const char* tn, T a, T b) {
  if (r.wants_desc()) r.desc(vf::fmt("gcd/reduce_fraction<%s>(%s, %s)", tn, s128(a).c_str(), s128(b).c_str()));
  std::string K = std::string("<") + tn + ">";
  uint64_t ua = (uint64_t)a, ub = (uint64_t)b;  // operands are non-negative
  T g = phosg::gcd<T>(a, b);
  uint64_t ug = (uint64_t)g;
  auto d = [&] { return vf::fmt("gcd<%s>(%s, %s) returned %s; std::gcd gives %llu", tn, s128(a).c_str(), s128(b).c_str(), s128(g).c_str(), (unsigned long long)std::gcd(ua, ub)); };
  bool bad = false;
  if (ua == 0 && ub == 0) {
    if (g != 0) { r.fail("gcd" + K + ":gcd(a,0)!=a", d); bad = true; }
    if (!bad) r.ok("gcd(0,0)=0; reduce_fraction not called (excluded)");
    return;
  }
  r.nontriv();
  if (g <= 0) { r.fail("gcd" + K + ":not-positive", d); return; }
  if (ua % ug != 0 || ub % ug != 0) { r.fail("gcd" + K + ":not-a-common-divisor", d); bad = true; }
  if (b == 0 && g != a) { r.fail("gcd" + K + ":gcd(a,0)!=a", d); bad = true; }
  if (a == 0 && g != b) { r.fail("gcd" + K + ":gcd(0,b)!=b", d); bad = true; }
  // every common divisor divides g: brute force up to 300 (complete for the [0,300]^2 block) ...
  for (uint64_t c = 1; c <= 300 && !bad; c++) {
    if (ua % c == 0 && ub % c == 0 && ug % c != 0) { r.fail("gcd" + K + ":not-greatest", d); bad = true; }
  }
  // ... and beyond it the binary-gcd of libstdc++ (independent of the Euclid loop under test)
  if (!bad && ug != std::gcd(ua, ub)) { r.fail("gcd" + K + ":not-greatest", d); bad = true; }

  auto f = phosg::reduce_fraction<T>(a, b);
  uint64_t fa = (uint64_t)f.first, fb = (uint64_t)f.second;
  auto d2 = [&] { return vf::fmt("reduce_fraction<%s>(%s, %s) returned (%s, %s)", tn, s128(a).c_str(), s128(b).c_str(), s128(f.first).c_str(), s128(f.second).c_str()); };
  if (f.first < 0 || f.second < 0) { r.fail("reduce_fraction" + K + ":negative-term", d2); bad = true; }
  else {
    if (std::gcd(fa, fb) != 1) { r.fail("reduce_fraction" + K + ":not-coprime", d2); bad = true; }
    if ((u128)ua * fb != (u128)fa * ub) { r.fail("reduce_fraction" + K + ":ratio-changed", d2); bad = true; }
    if ((ua == 0) != (fa == 0) || (ub == 0) != (fb == 0)) { r.fail("reduce_fraction" + K + ":ratio-changed", d2); bad = true; }
  }
  if (!bad) r.ok(ug == 1 ? "coprime operands" : (a == 0 || b == 0) ? "one operand zero" : "common factor removed");
}

template <class T>
void gcd_type(vf::Run& r, const char* tn) {
  r.note(std::string("gcd<") + tn + ">");
  typedef std::numeric_limits<T> L;
  const uint64_t maxv = (uint64_t)L::max();
  const uint64_t lim = maxv < 300 ? maxv : 300;
  for (uint64_t a = 0; a <= lim; a++) {
    for (uint64_t b = 0; b <= lim; b++) {
      if (!r.take()) continue;
      gcd_case<T>(r, tn, (T)a, (T)b);
    }
  }
  // boundaries of the type (non-negative only)
  std::vector<uint64_t> B = {maxv, maxv - 1, maxv - 2, maxv / 2, maxv / 2 + 1, maxv / 3, (maxv / 3) * 3, maxv / 255 * 255, maxv - maxv % 6};
  if (!L::is_signed) B.push_back(maxv / 2 + 1);  // 2^(w-1)
  else B.push_back((maxv + 1) / 2);              // 2^(w-2)
  std::vector<uint64_t> S = {0, 1, 2, 3, 4, 5, 6, 7, 9, 10, 12, 15, 16, 25, 64, 100, 127};
  std::vector<uint64_t> all = B;
  for (auto s : S) if (s <= maxv) all.push_back(s);
  for (size_t i = 0; i < all.size(); i++) {
    for (size_t j = 0; j < all.size(); j++) {
      if (i >= B.size() && j >= B.size()) continue;  // small x small is inside the block above
      if (!r.take()) continue;
      gcd_case<T>(r, tn, (T)all[i], (T)all[j]);
    }
  }
}

// ------------------------------------------------------------------------------------------------
// log2i
// ------------------------------------------------------------------------------------------------

template <class T>
inline bool log2i_ok(T v, T e) {
  // defining equation of floor(log2 v): 2^e <= v < 2^(e+1)  <=>  0 <= e < width and (v >> e) == 1
  if (e < 0 || (uint64_t)e >= sizeof(T) * 8) return false;
  return ((uint64_t)v >> (unsigned)e) == 1;
}

inline int ref_log2(uint64_t v) {
  int e = -1;
  while (v) { v >>= 1; e++; }
  return e;
}

template <class T>
void log2i_case(vf::Run& r, const char* tn, T v) {
  if (r.wants_desc()) r.desc(vf::fmt("log2i<%s>(%s)", tn, s128(v).c_str()));
  T e = phosg::log2i<T>(v);
  r.nontriv();
  if (!log2i_ok<T>(v, e)) {
    r.fail(std::string("log2i<") + tn + ">:wrong-value", [&] { return vf::fmt("log2i<%s>(%s) returned %s, floor(log2 v) is %d", tn, s128(v).c_str(), s128(e).c_str(), ref_log2((uint64_t)v)); });
  } else r.ok((((uint64_t)v & ((uint64_t)v - 1)) == 0) ? "exact power of two" : "between powers of two");
}

template <class T>
void log2i_type(vf::Run& r, const char* tn) {
  r.note(std::string("log2i<") + tn + ">");
  const uint64_t maxv = (uint64_t)std::numeric_limits<T>::max();
  // all positive values up to 2^16 (complete for 8- and 16-bit types)
  uint64_t lim = maxv < 65536 ? maxv : 65536;
  for (uint64_t v = 1; v <= lim; v++) {
    if (!r.take()) continue;
    log2i_case<T>(r, tn, (T)v);
  }
  for (unsigned k = 0; k < sizeof(T) * 8; k++) {
    for (int dlt = -1; dlt <= 1; dlt++) {
      u128 v = ((u128)1 << k) + dlt;
      if (v < 1 || v > maxv) continue;
      if (!r.take()) continue;
      log2i_case<T>(r, tn, (T)(uint64_t)v);
    }
  }
  if (!r.take()) return;
  log2i_case<T>(r, tn, (T)maxv);
}

template <class T>
void log2i_lanes(vf::Run& r, const char* tn) {
  static const uint8_t L5[5] = {0x00, 0x01, 0x7F, 0x80, 0xFF};
  const uint64_t maxv = (uint64_t)std::numeric_limits<T>::max();
  for (vf::Odometer o(std::vector<uint32_t>(8, 5)); !o.done; o.step()) {
    uint64_t v = 0;
    for (int i = 0; i < 8; i++) v |= (uint64_t)L5[o.d[i]] << (8 * i);
    if (v == 0 || v > maxv) continue;
    if (!r.take()) continue;
    log2i_case<T>(r, tn, (T)v);
  }
}

// ------------------------------------------------------------------------------------------------
// owned entropy: read() on the /dev/urandom descriptor serves an enumerated stream
// ------------------------------------------------------------------------------------------------

enum StreamKind { ST_OFF = 0, ST_CONST, ST_DIGIT, ST_SHIFT };
struct Stream {
  int kind = ST_OFF;
  unsigned param = 0;
  uint64_t served = 0;  // bytes served so far == absolute position of the next byte
  uint64_t reads = 0;
  inline uint8_t at(uint64_t i) const {
    switch (kind) {
      case ST_CONST: return (uint8_t)param;
      case ST_DIGIT: return (uint8_t)(i >> (8 * param));  // param-th base-256 digit of the position
      case ST_SHIFT: return (uint8_t)(param + i);
    }
    return 0;
  }
  std::string name() const {
    switch (kind) {
      case ST_CONST: return vf::fmt("constant %02X", param);
      case ST_DIGIT: return param == 0 ? std::string("counter (byte i = i mod 256)") : vf::fmt("position digit %u (byte i = (i >> %u) mod 256)", param, 8 * param);
      case ST_SHIFT: return vf::fmt("shifted counter (byte i = (%u + i) mod 256)", param);
    }
    return "off";
  }
};
Stream g_stream;

bool is_urandom(int fd) {
  struct stat st;
  if (fstat(fd, &st) != 0) return false;
  return S_ISCHR(st.st_mode) && major(st.st_rdev) == 1 && minor(st.st_rdev) == 9;
}

}  // namespace

extern "C" ssize_t __real_read(int fd, void* buf, size_t n);
extern "C" ssize_t __wrap_read(int fd, void* buf, size_t n) {
  if (g_stream.kind != ST_OFF && is_urandom(fd)) {
    uint8_t* p = (uint8_t*)buf;
    for (size_t i = 0; i < n; i++) p[i] = g_stream.at(g_stream.served + i);
    g_stream.served += n;
    g_stream.reads++;
    return (ssize_t)n;
  }
  return __real_read(fd, buf, n);
}

namespace {

// Runs fn(out) in a forked child (pristine copy of the parent, which never touches random_data);
// the child ships `out` through a pipe.  Returns false if the child died or reported an exception.
struct ChildResult {
  bool ok = false;
  std::string data, why;
};

template <class F>
ChildResult run_child(const Stream& st, F&& fn) {
  ChildResult res;
  int pfd[2];
  if (pipe(pfd) != 0) { res.why = "pipe failed"; return res; }
  fflush(stdout);
  fflush(stderr);
  pid_t pid = fork();
  if (pid < 0) { res.why = "fork failed"; close(pfd[0]); close(pfd[1]); return res; }
  if (pid == 0) {
    close(pfd[0]);
    alarm(60);
    g_stream = st;
    g_stream.served = 0;
    g_stream.reads = 0;
    std::string out;
    char tag = 'K';
    try {
      fn(out);
    } catch (const std::exception& e) {
      tag = 'X';
      out = e.what();
    } catch (...) {
      tag = 'X';
      out = "non-standard exception";
    }
    uint64_t hdr[2] = {g_stream.served, g_stream.reads};
    g_stream.kind = ST_OFF;
    std::string msg(1, tag);
    msg.append((const char*)hdr, sizeof(hdr));
    msg += out;
    size_t off = 0;
    while (off < msg.size()) {
      ssize_t w = write(pfd[1], msg.data() + off, msg.size() - off);
      if (w <= 0) _exit(4);
      off += (size_t)w;
    }
    _exit(0);
  }
  close(pfd[1]);
  char buf[65536];
  for (;;) {
    ssize_t n = read(pfd[0], buf, sizeof(buf));
    if (n > 0) res.data.append(buf, (size_t)n);
    else if (n == 0) break;
    else if (errno != EINTR) break;
  }
  close(pfd[0]);
  int status = 0;
  while (waitpid(pid, &status, 0) < 0 && errno == EINTR) {}
  if (!WIFEXITED(status) || WEXITSTATUS(status) != 0) {
    res.why = WIFSIGNALED(status) ? vf::fmt("child killed by signal %d", WTERMSIG(status)) : vf::fmt("child exited with status %d", WEXITSTATUS(status));
    return res;
  }
  if (res.data.size() < 17) { res.why = "child sent a short report"; return res; }
  if (res.data[0] == 'X') { res.why = "exception: " + res.data.substr(17); return res; }
  res.ok = true;
  return res;
}

struct Pair { int64_t lo, hi; };

std::vector<Pair> random_int_pairs(bool small_only) {
  // hi - lo from a boundary set (every width-selection threshold of random_int +- 1) x lo from a boundary set
  static const uint64_t D[] = {0, 1, 2, 254, 255, 256, 65534, 65535, 65536, 0xFFFFFFFEull, 0xFFFFFFFFull, 0x100000000ull,
      1ull << 62, (1ull << 63) - 2, (1ull << 63) - 1};
  std::vector<Pair> out;
  for (uint64_t d : D) {
    if (small_only && d > 255) continue;
    std::vector<int64_t> los = {INT64_MIN, -1, 0, 1, (int64_t)((uint64_t)INT64_MAX - d)};
    if (d < 1000) { los.push_back(-(int64_t)d); los.push_back(-(int64_t)(d / 2)); los.push_back(1000); }
    std::set<int64_t> seen;
    for (int64_t lo : los) {
      if ((i128)lo + (i128)d > (i128)INT64_MAX) continue;
      if (!seen.insert(lo).second) continue;
      out.push_back({lo, (int64_t)((uint64_t)lo + d)});
    }
  }
  return out;
}

std::string pair_str(const Pair& p) { return vf::fmt("random_int(%lld, %lld)", (long long)p.lo, (long long)p.hi); }

const size_t RD_SIZES[] = {0, 1, 2, 4095, 4096, 4097, 8191, 8193};
const size_t CANARY = 16;
const uint8_t SENTINEL = 0xA5;

// child side of one random_data history: each request gets its own heap frame
// [16 canary][size sentinel bytes][16 canary]; frames are shipped back verbatim
void rd_history_child(const std::vector<size_t>& sizes, bool string_overload, std::string& out) {
  for (size_t sz : sizes) {
    std::string frame(CANARY + sz + CANARY, (char)SENTINEL);
    for (size_t i = 0; i < CANARY; i++) {
      frame[i] = (char)(0xC0 + i);
      frame[CANARY + sz + i] = (char)(0xD0 + i);
    }
    if (string_overload) {
      std::string s = phosg::random_data(sz);
      uint64_t n = s.size();
      out.append((const char*)&n, 8);
      out += s;
    } else {
      // written in place: a stray write within 16 bytes lands on a canary, further out on an ASan redzone
      phosg::random_data(frame.data() + CANARY, sz);
      uint64_t n = sz;
      out.append((const char*)&n, 8);
      out += frame;
    }
  }
}

std::string sizes_str(const std::vector<size_t>& v) {
  std::string s = "[";
  for (size_t i = 0; i < v.size(); i++) s += (i ? ", " : "") + std::to_string(v[i]);
  return s + "]";
}

// ------------------------------------------------------------------------------------------------
// vectors
// ------------------------------------------------------------------------------------------------

template <class T, size_t N> struct VecOf;
template <class T> struct VecOf<T, 2> { typedef Vector2<T> type; };
template <class T> struct VecOf<T, 3> { typedef Vector3<T> type; };
template <class T> struct VecOf<T, 4> { typedef Vector4<T> type; };

template <class T> Vector2<T> mk(const std::array<T, 2>& c) { return Vector2<T>(c[0], c[1]); }
template <class T> Vector3<T> mk(const std::array<T, 3>& c) { return Vector3<T>(c[0], c[1], c[2]); }
template <class T> Vector4<T> mk(const std::array<T, 4>& c) { return Vector4<T>(c[0], c[1], c[2], c[3]); }
template <class T> std::array<T, 2> comps(const Vector2<T>& v) { return {v.x, v.y}; }
template <class T> std::array<T, 3> comps(const Vector3<T>& v) { return {v.x, v.y, v.z}; }
template <class T> std::array<T, 4> comps(const Vector4<T>& v) { return {v.x, v.y, v.z, v.w}; }

template <class T, size_t N>
std::string astr(const std::array<T, N>& a) {
  std::string s = "(";
  for (size_t i = 0; i < N; i++) s += (i ? "," : "") + vf::fmt("%g", (double)a[i]);
  return s + ")";
}

template <class T> const char* tname();
template <> const char* tname<int64_t>() { return "int64_t"; }
template <> const char* tname<double>() { return "double"; }

template <class T, size_t N>
struct VecCheck {
  typedef typename VecOf<T, N>::type V;
  typedef std::array<T, N> A;
  vf::Run& r;
  std::string cls;
  bool bad = false;
  explicit VecCheck(vf::Run& r) : r(r), cls(vf::fmt("Vector%zu<%s>", N, tname<T>())) {}

  template <class D>
  void expect_vec(const char* op, const V& got, const A& want, D&& ctx) {
    if (comps(got) != want) {
      bad = true;
      r.fail(vf::fmt("Vector%zu::%s:wrong-value", N, op), [&] { return cls + " " + ctx() + " " + op + " gave " + astr(comps(got)) + ", componentwise definition gives " + astr(want); });
    }
  }
  template <class S, class D>
  void expect_val(const char* op, S got, S want, D&& ctx) {
    if (!(got == want)) {
      bad = true;
      r.fail(vf::fmt("Vector%zu::%s:wrong-value", N, op), [&] { return cls + " " + ctx() + " " + op + vf::fmt(" gave %.17g, definition gives %.17g", (double)got, (double)want); });
    }
  }

  static A map2(const A& a, const A& b, T (*f)(T, T)) {
    A o;
    for (size_t i = 0; i < N; i++) o[i] = f(a[i], b[i]);
    return o;
  }
  static A map1(const A& a, T s, T (*f)(T, T)) {
    A o;
    for (size_t i = 0; i < N; i++) o[i] = f(a[i], s);
    return o;
  }
  static T add(T x, T y) { return x + y; }
  static T sub(T x, T y) { return x - y; }
  static T mul(T x, T y) { return x * y; }
  static T dvd(T x, T y) { return x / y; }
  static T mod(T x, T y) {
    if constexpr (std::is_integral_v<T>) return x % y;
    else return 0;
  }

  // binary operators on a pair of vectors
  void pair(const A& ca, const A& cb) {
    bad = false;
    V a = mk<T>(ca), b = mk<T>(cb);
    auto ctx = [&] { return "a=" + astr(ca) + " b=" + astr(cb); };
    expect_vec("operator+", a + b, map2(ca, cb, add), ctx);
    expect_vec("operator-", a - b, map2(ca, cb, sub), ctx);
    {
      V t = a;
      V& ref = (t += b);
      expect_vec("operator+=", t, map2(ca, cb, add), ctx);
      if (&ref != &t) { bad = true; r.fail(vf::fmt("Vector%zu::operator+=:returns-other-object", N), [&] { return cls + " " + ctx(); }); }
      V u = a;
      V& ref2 = (u -= b);
      expect_vec("operator-=", u, map2(ca, cb, sub), ctx);
      if (&ref2 != &u) { bad = true; r.fail(vf::fmt("Vector%zu::operator-=:returns-other-object", N), [&] { return cls + " " + ctx(); }); }
    }
    expect_vec("operands-unchanged", a, ca, ctx);
    bool eq = (ca == cb);
    expect_val<bool>("operator==", a == b, eq, ctx);
    expect_val<bool>("operator!=", a != b, !eq, ctx);
    expect_val<bool>("operator<", a < b, std::lexicographical_compare(ca.begin(), ca.end(), cb.begin(), cb.end()), ctx);
    T dot = 0;
    for (size_t i = 0; i < N; i++) dot += ca[i] * cb[i];
    expect_val<T>("dot", a.dot(b), dot, ctx);
    expect_val<T>("dot(commuted)", b.dot(a), dot, ctx);
    if constexpr (N == 3) {
      V c = a.cross(b);
      A cc = comps(c);
      // orthogonal to both operands (exact: small integers)
      T da = 0, db = 0, n2 = 0, na = 0, nb = 0;
      for (size_t i = 0; i < 3; i++) { da += cc[i] * ca[i]; db += cc[i] * cb[i]; n2 += cc[i] * cc[i]; na += ca[i] * ca[i]; nb += cb[i] * cb[i]; }
      if (da != 0 || db != 0) { bad = true; r.fail("Vector3::cross:not-orthogonal", [&] { return cls + " " + ctx() + " cross=" + astr(cc) + vf::fmt(" cross.a=%g cross.b=%g", (double)da, (double)db); }); }
      // Lagrange identity |a x b|^2 = |a|^2 |b|^2 - (a.b)^2 (rules out the zero vector), orientation by the
      // right-hand-rule definition, anticommutativity
      if (n2 != na * nb - dot * dot) { bad = true; r.fail("Vector3::cross:wrong-magnitude", [&] { return cls + " " + ctx() + " cross=" + astr(cc); }); }
      A want = {ca[1] * cb[2] - ca[2] * cb[1], ca[2] * cb[0] - ca[0] * cb[2], ca[0] * cb[1] - ca[1] * cb[0]};
      expect_vec("cross", c, want, ctx);
      A neg = {-want[0], -want[1], -want[2]};
      for (auto& x : neg) x = x + 0;  // -0.0 + 0 = +0.0 is irrelevant for ==, kept for clarity
      if (!(comps(b.cross(a)) == neg)) { bad = true; r.fail("Vector3::cross:not-anticommutative", [&] { return cls + " " + ctx(); }); }
    }
    r.nontriv();
    if (!bad) r.ok(eq ? "pair: equal vectors" : (a < b) ? "pair: a<b" : "pair: a>b");
  }

  // unary operators, accessors and vector (op) scalar for one vector and one scalar
  void unary(const A& ca, T s) {
    bad = false;
    V a = mk<T>(ca);
    auto ctx = [&] { return "a=" + astr(ca) + vf::fmt(" s=%g", (double)s); };
    A neg;
    bool allzero = true;
    T n2 = 0;
    for (size_t i = 0; i < N; i++) { neg[i] = -ca[i]; allzero = allzero && ca[i] == 0; n2 += ca[i] * ca[i]; }
    expect_vec("operator-(unary)", -a, neg, ctx);
    expect_val<bool>("operator!", !a, allzero, ctx);
    for (size_t i = 0; i < N; i++) expect_val<T>("at", a.at(i), ca[i], ctx);
    expect_val<size_t>("dimensions", V::dimensions(), N, ctx);
    expect_val<T>("norm2", a.norm2(), n2, ctx);
    {
      double n = a.norm(), want = sqrt((double)n2);
      if (fabs(n - want) > 1e-12 * (1 + want)) { bad = true; r.fail(vf::fmt("Vector%zu::norm:wrong-value", N), [&] { return cls + " " + ctx() + vf::fmt(" norm()=%.17g sqrt(sum of squares)=%.17g", n, want); }); }
    }
    (void)a.norm1();  // executed only: the statement does not define norm1 (the library returns the plain sum)
    expect_vec("operator+(scalar)", a + s, map1(ca, s, add), ctx);
    expect_vec("operator-(scalar)", a - s, map1(ca, s, sub), ctx);
    expect_vec("operator*(scalar)", a * s, map1(ca, s, mul), ctx);
    { V t = a; t += s; expect_vec("operator+=(scalar)", t, map1(ca, s, add), ctx); }
    { V t = a; t -= s; expect_vec("operator-=(scalar)", t, map1(ca, s, sub), ctx); }
    { V t = a; t *= s; expect_vec("operator*=(scalar)", t, map1(ca, s, mul), ctx); }
    if (s != 0) {
      expect_vec("operator/(scalar)", a / s, map1(ca, s, dvd), ctx);
      { V t = a; t /= s; expect_vec("operator/=(scalar)", t, map1(ca, s, dvd), ctx); }
      if constexpr (std::is_integral_v<T>) {
        expect_vec("operator%(scalar)", a % s, map1(ca, s, mod), ctx);
        { V t = a; t %= s; expect_vec("operator%=(scalar)", t, map1(ca, s, mod), ctx); }
      }
    }
    expect_vec("operands-unchanged", a, ca, ctx);
    // widening constructors
    if constexpr (N == 3) {
      V w(Vector2<T>(ca[0], ca[1]), ca[2]);
      expect_vec("Vector3(Vector2,z)", w, ca, ctx);
    }
    if constexpr (N == 4) {
      V w(Vector2<T>(ca[0], ca[1]), ca[2], ca[3]);
      expect_vec("Vector4(Vector2,z,w)", w, ca, ctx);
      V w3(Vector3<T>(ca[0], ca[1], ca[2]), ca[3]);
      expect_vec("Vector4(Vector3,w)", w3, ca, ctx);
    }
    {
      V z;
      A zero{};
      expect_vec("default-constructor", z, zero, ctx);
    }
    r.nontriv();
    if (!bad) r.ok(s == 0 ? "unary+scalar: s=0 (division not executed)" : "unary+scalar");
  }

  // operator< is a strict weak order consistent with == (one triple)
  void triple(const A& ca, const A& cb, const A& cc) {
    bad = false;
    V a = mk<T>(ca), b = mk<T>(cb), c = mk<T>(cc);
    auto ctx = [&] { return "a=" + astr(ca) + " b=" + astr(cb) + " c=" + astr(cc); };
    auto flag = [&](const char* law) { bad = true; r.fail(vf::fmt("Vector%zu::operator<:%s", N, law), [&] { return cls + " " + ctx(); }); };
    bool ab = a < b, ba = b < a, bc = b < c, cb_ = c < b, ac = a < c, ca_ = c < a;
    if (a < a || b < b || c < c) flag("not-irreflexive");
    if ((ab && ba) || (bc && cb_) || (ac && ca_)) flag("not-asymmetric");
    if (ab && bc && !ac) flag("not-transitive");
    bool iab = !ab && !ba, ibc = !bc && !cb_, iac = !ac && !ca_;
    if (iab && ibc && !iac) flag("incomparability-not-transitive");
    if (iab != (a == b) || ibc != (b == c) || iac != (a == c)) flag("incomparable-differs-from-==");
    if (ab != (ca < cb) || bc != (cb < cc) || ac != (ca < cc)) flag("not-lexicographic");
    r.nontriv();
    if (!bad) r.ok(iab && ibc ? "triple: all equal" : (ab && bc) ? "triple: ascending chain" : "triple: other");
  }
};

template <class T, size_t N>
void vec_pairs(vf::Run& r, int lo, int hi) {
  r.note(vf::fmt("Vector%zu<%s>", N, tname<T>()));
  VecCheck<T, N> ck(r);
  uint32_t span = (uint32_t)(hi - lo + 1);
  std::vector<uint32_t> radix(N, span);
  // vector (op) scalar and unary operators: every vector x every scalar of the same range
  for (vf::Odometer o(radix); !o.done; o.step()) {
    std::array<T, N> a;
    for (size_t i = 0; i < N; i++) a[i] = (T)(lo + (int)o.d[i]);
    for (int s = lo; s <= hi; s++) {
      if (!r.take()) continue;
      if (r.wants_desc()) r.desc(vf::fmt("Vector%zu<%s> a=%s scalar %d: unary -, !, at, norm2, norm, + - * / %% with scalar, constructors", N, tname<T>(), astr(a).c_str(), s));
      ck.unary(a, (T)s);
    }
  }
  // all ordered pairs
  for (vf::Odometer oa(radix); !oa.done; oa.step()) {
    std::array<T, N> a;
    for (size_t i = 0; i < N; i++) a[i] = (T)(lo + (int)oa.d[i]);
    for (vf::Odometer ob(radix); !ob.done; ob.step()) {
      if (!r.take()) continue;
      std::array<T, N> b;
      for (size_t i = 0; i < N; i++) b[i] = (T)(lo + (int)ob.d[i]);
      if (r.wants_desc()) r.desc(vf::fmt("Vector%zu<%s> a=%s b=%s: + - += -= == != < dot%s", N, tname<T>(), astr(a).c_str(), astr(b).c_str(), N == 3 ? " cross" : ""));
      ck.pair(a, b);
    }
  }
}

template <class T, size_t N>
void vec_triples(vf::Run& r, int lo, int hi) {
  r.note(vf::fmt("Vector%zu<%s>::operator<", N, tname<T>()));
  VecCheck<T, N> ck(r);
  uint32_t span = (uint32_t)(hi - lo + 1);
  std::vector<std::array<T, N>> all;
  for (vf::Odometer o(std::vector<uint32_t>(N, span)); !o.done; o.step()) {
    std::array<T, N> a;
    for (size_t i = 0; i < N; i++) a[i] = (T)(lo + (int)o.d[i]);
    all.push_back(a);
  }
  for (size_t i = 0; i < all.size(); i++) {
    for (size_t j = 0; j < all.size(); j++) {
      for (size_t k = 0; k < all.size(); k++) {
        if (!r.take()) continue;
        if (r.wants_desc()) r.desc(vf::fmt("Vector%zu<%s> operator< on triple %s %s %s", N, tname<T>(), astr(all[i]).c_str(), astr(all[j]).c_str(), astr(all[k]).c_str()));
        ck.triple(all[i], all[j], all[k]);
      }
    }
  }
}

// ------------------------------------------------------------------------------------------------
// Matrix4
// ------------------------------------------------------------------------------------------------

// plain reference matrix: e[row][col], textbook definitions
struct RefM {
  double e[4][4];
};
RefM ref_identity() {
  RefM m{};
  for (int i = 0; i < 4; i++) m.e[i][i] = 1;
  return m;
}

struct MSpec {  // identity with up to two entries replaced
  int n = 0;
  int pos[2] = {0, 0};  // row*4+col
  int val[2] = {0, 0};
  RefM ref() const {
    RefM m = ref_identity();
    for (int i = 0; i < n; i++) m.e[pos[i] / 4][pos[i] % 4] = val[i];
    return m;
  }
  std::string str() const {
    std::string s = "I";
    for (int i = 0; i < n; i++) s += vf::fmt(" with [row %d,col %d]=%d", pos[i] / 4, pos[i] % 4, val[i]);
    return s;
  }
};

// Matrix4 stores m[column][row] (operator*(Vector4) sums m[k][row]*v[k]); the harness never relies on
// that except here, and `matrix_layout` below checks it against M*e_k = k-th column.
template <class T>
Matrix4<T> build(const RefM& rm) {
  Matrix4<T> m;
  for (int row = 0; row < 4; row++)
    for (int col = 0; col < 4; col++) m.m[col][row] = (T)rm.e[row][col];
  return m;
}
template <class T>
RefM unbuild(const Matrix4<T>& m) {
  RefM rm;
  for (int row = 0; row < 4; row++)
    for (int col = 0; col < 4; col++) rm.e[row][col] = (double)m.m[col][row];
  return rm;
}
RefM ref_mul(const RefM& a, const RefM& b) {
  RefM o{};
  for (int i = 0; i < 4; i++)
    for (int j = 0; j < 4; j++)
      for (int k = 0; k < 4; k++) o.e[i][j] += a.e[i][k] * b.e[k][j];
  return o;
}
std::array<double, 4> ref_mulv(const RefM& a, const std::array<double, 4>& v) {
  std::array<double, 4> o{};
  for (int i = 0; i < 4; i++)
    for (int k = 0; k < 4; k++) o[i] += a.e[i][k] * v[k];
  return o;
}
bool ref_eq(const RefM& a, const RefM& b) {
  for (int i = 0; i < 4; i++)
    for (int j = 0; j < 4; j++)
      if (a.e[i][j] != b.e[i][j]) return false;
  return true;
}
std::string ref_str(const RefM& a) {
  std::string s = "[";
  for (int i = 0; i < 4; i++) {
    s += i ? " | " : "";
    for (int j = 0; j < 4; j++) s += vf::fmt(j ? " %g" : "%g", a.e[i][j]);
  }
  return s + "]";
}

std::vector<MSpec> matrix_specs(int max_entries) {
  static const int vals[4] = {-2, -1, 1, 2};
  std::vector<MSpec> out;
  out.push_back(MSpec());
  for (int p = 0; p < 16; p++)
    for (int v : vals) {
      MSpec s;
      s.n = 1; s.pos[0] = p; s.val[0] = v;
      out.push_back(s);
    }
  if (max_entries >= 2) {
    for (int p = 0; p < 16; p++)
      for (int q = p + 1; q < 16; q++)
        for (int v : vals)
          for (int w : vals) {
            MSpec s;
            s.n = 2; s.pos[0] = p; s.val[0] = v; s.pos[1] = q; s.val[1] = w;
            out.push_back(s);
          }
  }
  return out;
}

const std::array<double, 4> TEST_VECS[3] = {{1, 2, 3, 4}, {-1, 2, -3, 5}, {0, 1, 0, -2}};

template <class T>
struct MatCheck {
  vf::Run& r;
  bool bad = false;
  explicit MatCheck(vf::Run& r) : r(r) {}
  template <class D>
  void flag(const char* law, D&& d) {
    bad = true;
    r.fail(std::string("Matrix4:") + law, [&] { return std::string("Matrix4<") + tname<T>() + "> " + d(); });
  }
  static std::array<double, 4> vc(const Vector4<T>& v) { return {(double)v.x, (double)v.y, (double)v.z, (double)v.w}; }
  static Vector4<T> mkv(const std::array<double, 4>& v) { return Vector4<T>((T)v[0], (T)v[1], (T)v[2], (T)v[3]); }

  void single(const MSpec& s) {
    bad = false;
    RefM ra = s.ref();
    Matrix4<T> A = build<T>(ra), I;
    auto ctx = [&] { return "A = " + s.str(); };
    if (!ref_eq(unbuild(I), ref_identity())) flag("default-not-identity", ctx);
    Matrix4<T> At = A.transposition();
    RefM rt;
    for (int i = 0; i < 4; i++)
      for (int j = 0; j < 4; j++) rt.e[i][j] = ra.e[j][i];
    if (!ref_eq(unbuild(At), rt)) flag("transposition-wrong", ctx);
    if (!(At.transposition() == A) || !ref_eq(unbuild(At.transposition()), ra)) flag("transpose-twice-not-identity", ctx);
    {
      Matrix4<T> B = A;
      Matrix4<T>& ref = B.transpose();
      if (&ref != &B || !ref_eq(unbuild(B), rt)) flag("transpose-in-place-wrong", ctx);
      B.transpose();
      if (!ref_eq(unbuild(B), ra)) flag("transpose-twice-not-identity", ctx);
    }
    if (!ref_eq(unbuild(A * I), ra)) flag("A*I!=A", ctx);
    if (!ref_eq(unbuild(I * A), ra)) flag("I*A!=A", ctx);
    if (!(A == A) || (A != A)) flag("operator==", ctx);
    if ((A == I) != ref_eq(ra, ref_identity()) || (A != I) == ref_eq(ra, ref_identity())) flag("operator==", ctx);
    for (auto& v : TEST_VECS) {
      if (vc(A * mkv(v)) != ref_mulv(ra, v)) flag("matrix*vector-wrong", [&] { return ctx() + " v=" + astr(v) + " got " + astr(vc(A * mkv(v))) + " want " + astr(ref_mulv(ra, v)); });
      if (vc(I * mkv(v)) != v) flag("I*v!=v", ctx);
    }
    r.nontriv();
    if (!bad) r.ok(s.n == 0 ? "single: identity" : "single: perturbed identity");
  }

  void pair(const MSpec& sa, const MSpec& sb) {
    bad = false;
    RefM ra = sa.ref(), rb = sb.ref();
    Matrix4<T> A = build<T>(ra), B = build<T>(rb);
    auto ctx = [&] { return "A = " + sa.str() + "; B = " + sb.str(); };
    Matrix4<T> AB = A * B;
    RefM rab = ref_mul(ra, rb);
    for (auto& v : TEST_VECS) {
      Vector4<T> x = mkv(v);
      auto lhs = vc(AB * x), rhs = vc(A * (B * x));
      if (lhs != rhs) flag("(AB)v!=A(Bv)", [&] { return ctx() + " v=" + astr(v) + " (AB)v=" + astr(lhs) + " A(Bv)=" + astr(rhs); });
    }
    if (!ref_eq(unbuild(AB), rab)) flag("product-wrong", [&] { return ctx() + " A*B=" + ref_str(unbuild(AB)) + " textbook product=" + ref_str(rab); });
    {
      Matrix4<T> C = A;
      C *= B;
      if (!(C == AB)) flag("operator*=-differs-from-operator*", ctx);
    }
    if (!((AB).transposition() == B.transposition() * A.transposition())) flag("(AB)^T!=B^T*A^T", ctx);
    if (!ref_eq(unbuild(A + B), [&] { RefM o; for (int i = 0; i < 4; i++) for (int j = 0; j < 4; j++) o.e[i][j] = ra.e[i][j] + rb.e[i][j]; return o; }())) flag("operator+-wrong", ctx);
    if (!ref_eq(unbuild(A - B), [&] { RefM o; for (int i = 0; i < 4; i++) for (int j = 0; j < 4; j++) o.e[i][j] = ra.e[i][j] - rb.e[i][j]; return o; }())) flag("operator--wrong", ctx);
    r.nontriv();
    if (!bad) r.ok(ref_eq(rab, ref_mul(rb, ra)) ? "pair: commuting" : "pair: non-commuting");
  }

  void triple(const MSpec& sa, const MSpec& sb, const MSpec& sc) {
    bad = false;
    Matrix4<T> A = build<T>(sa.ref()), B = build<T>(sb.ref()), C = build<T>(sc.ref());
    auto ctx = [&] { return "A = " + sa.str() + "; B = " + sb.str() + "; C = " + sc.str(); };
    Matrix4<T> L = (A * B) * C, R = A * (B * C);
    if (!(L == R)) flag("(AB)C!=A(BC)", ctx);
    if (!ref_eq(unbuild(L), ref_mul(ref_mul(sa.ref(), sb.ref()), sc.ref()))) flag("product-wrong", ctx);
    for (auto& v : TEST_VECS) {
      Vector4<T> x = mkv(v);
      if (vc(L * x) != vc(A * (B * (C * x)))) flag("(AB)v!=A(Bv)", [&] { return ctx() + " v=" + astr(v); });
    }
    r.nontriv();
    if (!bad) r.ok("triple of elementary matrices");
  }
};

}  // namespace

// ================================================================================================

#define EACH_INT_TYPE(F)                                                                  \
  F(int8_t, "int8_t") F(uint8_t, "uint8_t") F(int16_t, "int16_t") F(uint16_t, "uint16_t") \
  F(int32_t, "int32_t") F(uint32_t, "uint32_t") F(int64_t, "int64_t") F(uint64_t, "uint64_t")

VF_SECTION(gcd, 8, 8, 90) {
#define G(T, N) gcd_type<T>(r, N);
  EACH_INT_TYPE(G)
#undef G
  r.bound = "gcd and reduce_fraction for each of the 8 integer widths: all pairs in [0,300]^2 clipped to the type, plus all (boundary x boundary/small) pairs of {max, max-1, max-2, max/2, max/2+1, 2^(w-1), ...}; non-negative operands; reduce_fraction(0,0) not called";
}

VF_SECTION(log2i, 4, 4, 90) {
#define G(T, N) log2i_type<T>(r, N);
  EACH_INT_TYPE(G)
#undef G
  r.note("log2i<int64_t> lanes");
  log2i_lanes<int64_t>(r, "int64_t");
  r.note("log2i<uint64_t> lanes");
  log2i_lanes<uint64_t>(r, "uint64_t");
  r.bound = "log2i for 8 integer widths: every positive value up to 2^16 (complete for 8/16-bit), 2^k and 2^k+-1 for every k, type max; 64-bit: every positive value with byte lanes from {00,01,7F,80,FF}";
}

// thorough only: all 2^32 values of uint32_t (and the positive half for int32_t), 65536 values per case
VF_SECTION(log2i_all32, 0, 16, 120) {
  r.note("log2i<uint32_t> all values");
  uint64_t wrong_u = 0, wrong_s = 0;
  for (uint64_t blk = 0; blk < 65536; blk++) {
    if (!r.take()) continue;
    if (r.wants_desc()) r.desc(vf::fmt("log2i<uint32_t> and log2i<int32_t> on every value of [%llu, %llu]", (unsigned long long)(blk << 16), (unsigned long long)((blk << 16) + 65535)));
    uint64_t first_bad_u = 0, first_bad_s = 0;
    bool bu = false, bs = false;
    for (uint64_t v = blk << 16; v < (blk + 1) << 16; v++) {
      if (v == 0) continue;
      uint32_t e = phosg::log2i<uint32_t>((uint32_t)v);
      if (!log2i_ok<uint32_t>((uint32_t)v, e)) { if (!bu) first_bad_u = v; bu = true; wrong_u++; }
      if (v <= INT32_MAX) {
        int32_t es = phosg::log2i<int32_t>((int32_t)v);
        if (!log2i_ok<int32_t>((int32_t)v, es)) { if (!bs) first_bad_s = v; bs = true; wrong_s++; }
        r.transitions++;
      }
      r.transitions++;
    }
    r.nontriv();
    if (bu) r.fail("log2i<uint32_t>:wrong-value", [&] { return vf::fmt("log2i<uint32_t>(%llu) returned %u, floor(log2 v) is %d", (unsigned long long)first_bad_u, phosg::log2i<uint32_t>((uint32_t)first_bad_u), ref_log2(first_bad_u)); });
    if (bs) r.fail("log2i<int32_t>:wrong-value", [&] { return vf::fmt("log2i<int32_t>(%llu) returned %d, floor(log2 v) is %d", (unsigned long long)first_bad_s, phosg::log2i<int32_t>((int32_t)first_bad_s), ref_log2(first_bad_s)); });
    if (!bu && !bs) r.ok("block of 65536 values correct");
  }
  r.states = r.transitions;
  r.counters["values"] += r.transitions;
  r.bound = "log2i<uint32_t> on all 2^32-1 positive values, log2i<int32_t> on all 2^31-1 positive values";
}

// ---- random_int: result within [lo,hi] under every owned stream; onto for ranges <= 256 -----------
VF_SECTION(random_int, 4, 4, 120) {
  r.note("random_int");
  std::vector<Pair> pairs = random_int_pairs(false);
  std::vector<Stream> base;
  for (unsigned c : {0x00u, 0xFFu, 0x80u, 0x7Fu, 0x01u}) { Stream s; s.kind = ST_CONST; s.param = c; base.push_back(s); }
  for (unsigned k : {0u, 1u, 2u}) { Stream s; s.kind = ST_DIGIT; s.param = k; base.push_back(s); }

  auto check_results = [&](const Stream& st, const std::vector<Pair>& ps, const ChildResult& cr, const char* what) {
    if (!cr.ok) {
      r.fail("random_int:child-died", [&] { return vf::fmt("%s under stream '%s': %s", what, st.name().c_str(), cr.why.c_str()); });
      return false;
    }
    const int64_t* res = (const int64_t*)(cr.data.data() + 17);
    size_t n = (cr.data.size() - 17) / 8;
    bool bad = n != ps.size();
    for (size_t i = 0; i < n && i < ps.size(); i++) {
      r.counters["random_int_calls"]++;
      if (res[i] < ps[i].lo || res[i] > ps[i].hi) {
        bad = true;
        r.fail("random_int:out-of-range", [&] { return vf::fmt("%s returned %lld under stream '%s' (%s, call #%zu in the child)", pair_str(ps[i]).c_str(), (long long)res[i], st.name().c_str(), what, i); });
      }
    }
    return !bad;
  };

  // (A) each (stream, pair) as the very first call of a fresh child
  for (auto& st : base) {
    for (auto& p : pairs) {
      if (!r.take()) continue;
      if (r.wants_desc()) r.desc(pair_str(p) + " as the first call in a pristine process, urandom stream: " + st.name());
      ChildResult cr = run_child(st, [&](std::string& out) { int64_t v = phosg::random_int(p.lo, p.hi); out.append((const char*)&v, 8); });
      r.nontriv();
      if (check_results(st, {p}, cr, "first call")) r.ok((uint64_t)p.hi - (uint64_t)p.lo < 255 ? "first call: 8-bit draw" : (uint64_t)p.hi - (uint64_t)p.lo < 65535 ? "first call: 16-bit draw" : (uint64_t)p.hi - (uint64_t)p.lo < 0xFFFFFFFFull ? "first call: 32-bit draw" : "first call: 64-bit draw");
    }
  }
  // (B) the whole pair list as one history (buffer in every fill state), forwards and backwards
  for (auto& st : base) {
    for (int rev = 0; rev < 2; rev++) {
      if (!r.take()) continue;
      std::vector<Pair> ps = pairs;
      if (rev) std::reverse(ps.begin(), ps.end());
      if (r.wants_desc()) r.desc(vf::fmt("history of %zu random_int calls over the boundary (lo,hi) list%s, urandom stream: %s", ps.size(), rev ? " reversed" : "", st.name().c_str()));
      ChildResult cr = run_child(st, [&](std::string& out) { for (auto& p : ps) { int64_t v = phosg::random_int(p.lo, p.hi); out.append((const char*)&v, 8); } });
      r.nontriv();
      if (check_results(st, ps, cr, "history")) r.ok("history of calls: all in range");
    }
  }
  // (C) ranges <= 256: over the 256 shifted-counter streams (every consumed byte takes every value) the
  // results cover [lo,hi] completely.  One case = one (lo,hi) = 256 children.
  std::vector<Pair> small = random_int_pairs(true);
  for (auto& p : small) {
    if (!r.take()) continue;
    if (r.wants_desc()) r.desc(pair_str(p) + " as first call under each of the 256 shifted-counter streams: results must lie in [lo,hi] and cover it");
    std::set<int64_t> seen;
    bool bad = false;
    for (unsigned b = 0; b < 256; b++) {
      Stream st; st.kind = ST_SHIFT; st.param = b;
      ChildResult cr = run_child(st, [&](std::string& out) { int64_t v = phosg::random_int(p.lo, p.hi); out.append((const char*)&v, 8); });
      if (!check_results(st, {p}, cr, "first call")) { bad = true; continue; }
      seen.insert(*(const int64_t*)(cr.data.data() + 17));
    }
    r.nontriv();
    uint64_t range = (uint64_t)p.hi - (uint64_t)p.lo + 1;
    if (!bad && seen.size() != range) {
      bad = true;
      r.fail("random_int:not-onto", [&] {
        std::string miss;
        for (int64_t v = p.lo; v <= p.hi && miss.size() < 60; v++) if (!seen.count(v)) miss += vf::fmt(" %lld", (long long)v);
        return vf::fmt("%s: the 256 streams whose consumed byte takes every value 0..255 produce only %zu of the %llu values; never returned:%s", pair_str(p).c_str(), seen.size(), (unsigned long long)range, miss.c_str());
      });
    }
    if (!bad) r.ok("256 byte values map onto [lo,hi]");
  }
  r.bound = vf::fmt("random_int on %zu boundary (lo,hi) pairs (hi-lo in {0,1,2,254,255,256,65534,65535,65536,2^32-2,2^32-1,2^32,2^62,2^63-2,2^63-1} x lo in {INT64_MIN,-1,0,1,INT64_MAX-d,...}) x 8 owned urandom streams as first call and as one history; %zu pairs with range<=256 x 256 shifted streams (onto)", pairs.size(), small.size());
}

// ---- random_data: every history of <=3 requests; positions decoded from three digit streams --------
VF_SECTION(random_data, 16, 16, 120) {
  r.note("random_data");
  std::vector<std::vector<size_t>> hist;
  for (size_t len = 1; len <= 3; len++) {
    for (vf::Odometer o(std::vector<uint32_t>(len, 8)); !o.done; o.step()) {
      std::vector<size_t> h;
      for (size_t i = 0; i < len; i++) h.push_back(RD_SIZES[o.d[len - 1 - i]]);
      hist.push_back(h);
    }
  }
  for (auto& h : hist) {
    if (!r.take()) continue;
    if (r.wants_desc()) r.desc("random_data(void*, n) history with sizes " + sizes_str(h) + " in a pristine process; urandom streams: position digits 0,1,2, constant 00, constant FF; string overload cross-checked");
    bool bad = false;
    auto die = [&](const std::string& why) { bad = true; r.fail("random_data:child-died", [&] { return "history " + sizes_str(h) + ": " + why; }); };
    // three runs whose stream bytes are the three base-256 digits of the stream position
    std::vector<ChildResult> runs;
    std::vector<Stream> sts;
    for (unsigned k = 0; k < 3; k++) { Stream s; s.kind = ST_DIGIT; s.param = k; sts.push_back(s); }
    { Stream s; s.kind = ST_CONST; s.param = 0x00; sts.push_back(s); }
    { Stream s; s.kind = ST_CONST; s.param = 0xFF; sts.push_back(s); }
    for (auto& st : sts) {
      runs.push_back(run_child(st, [&](std::string& out) { rd_history_child(h, false, out); }));
      r.counters["random_data_calls"] += h.size();
      if (!runs.back().ok) die("stream '" + st.name() + "': " + runs.back().why);
    }
    ChildResult strrun = run_child(sts[0], [&](std::string& out) { rd_history_child(h, true, out); });
    r.counters["random_data_calls"] += h.size();
    if (!strrun.ok) die("string overload: " + strrun.why);
    if (bad) continue;
    r.nontriv();
    uint64_t served = *(const uint64_t*)(runs[0].data.data() + 1);
    size_t total = 0;
    for (size_t sz : h) total += sz;
    // parse frames
    std::vector<std::vector<std::string>> frames(runs.size());
    for (size_t k = 0; k < runs.size() && !bad; k++) {
      const std::string& d = runs[k].data;
      if (*(const uint64_t*)(d.data() + 1) != served) {
        bad = true;
        r.fail("random_data:reads-depend-on-data", [&] { return "history " + sizes_str(h) + vf::fmt(": %llu bytes read from urandom under stream '%s' but %llu under '%s'", (unsigned long long)*(const uint64_t*)(d.data() + 1), sts[k].name().c_str(), (unsigned long long)served, sts[0].name().c_str()); });
        break;
      }
      size_t off = 17;
      for (size_t sz : h) {
        size_t flen = CANARY + sz + CANARY;
        if (off + 8 + flen > d.size() || *(const uint64_t*)(d.data() + off) != sz) { die("malformed report"); break; }
        frames[k].push_back(d.substr(off + 8, flen));
        off += 8 + flen;
        const std::string& f = frames[k].back();
        bool canary_ok = true;
        for (size_t i = 0; i < CANARY; i++) canary_ok = canary_ok && (uint8_t)f[i] == 0xC0 + i && (uint8_t)f[CANARY + sz + i] == 0xD0 + i;
        if (!canary_ok) { bad = true; r.fail("random_data:writes-outside-request", [&] { return "history " + sizes_str(h) + vf::fmt(": bytes outside the %zu requested ones were modified (stream '%s')", sz, sts[k].name().c_str()); }); }
      }
    }
    if (bad) continue;
    // constant streams: every requested byte must carry the stream value (sentinel A5 differs from 00 and FF)
    for (size_t k = 3; k < 5 && !bad; k++) {
      for (size_t j = 0; j < h.size() && !bad; j++) {
        for (size_t i = 0; i < h[j]; i++) {
          if ((uint8_t)frames[k][j][CANARY + i] != sts[k].param) {
            bad = true;
            r.fail("random_data:byte-not-from-stream", [&] { return "history " + sizes_str(h) + vf::fmt(": request #%zu byte %zu is %02X under stream '%s' (buffer was pre-filled with A5)", j, i, (uint8_t)frames[k][j][CANARY + i], sts[k].name().c_str()); });
            break;
          }
        }
      }
    }
    // digit streams: decode the stream position of every delivered byte
    std::vector<uint8_t> used(served, 0);
    for (size_t j = 0; j < h.size() && !bad; j++) {
      for (size_t i = 0; i < h[j]; i++) {
        uint64_t pos = (uint64_t)(uint8_t)frames[0][j][CANARY + i] | ((uint64_t)(uint8_t)frames[1][j][CANARY + i] << 8) | ((uint64_t)(uint8_t)frames[2][j][CANARY + i] << 16);
        if (pos >= served) {
          bad = true;
          r.fail("random_data:byte-not-from-stream", [&] { return "history " + sizes_str(h) + vf::fmt(": request #%zu byte %zu decodes to stream position %llu but only %llu bytes were read from urandom (A5A5A5 = byte left unwritten)", j, i, (unsigned long long)pos, (unsigned long long)served); });
          break;
        }
        if (used[pos]++) {
          bad = true;
          r.fail("random_data:byte-delivered-twice", [&] { return "history " + sizes_str(h) + vf::fmt(": stream byte at position %llu was delivered twice (second time as request #%zu byte %zu)", (unsigned long long)pos, j, i); });
          break;
        }
      }
    }
    // string overload: same sizes and the same bytes as the pointer overload under the same stream
    if (!bad) {
      const std::string& d = strrun.data;
      size_t off = 17;
      for (size_t j = 0; j < h.size() && !bad; j++) {
        uint64_t n = off + 8 <= d.size() ? *(const uint64_t*)(d.data() + off) : UINT64_MAX;
        if (n != h[j] || off + 8 + n > d.size()) {
          bad = true;
          r.fail("random_data(string):wrong-size", [&] { return "history " + sizes_str(h) + vf::fmt(": request #%zu returned a string of %llu bytes", j, (unsigned long long)n); });
          break;
        }
        if (d.compare(off + 8, n, frames[0][j], CANARY, h[j]) != 0) {
          bad = true;
          r.fail("random_data(string):differs-from-pointer-overload", [&] { return "history " + sizes_str(h) + vf::fmt(": request #%zu", j); });
        }
        off += 8 + n;
      }
    }
    r.counters["bytes_requested"] += total;
    r.counters["urandom_bytes_served"] += served;
    if (!bad) r.ok(total == 0 ? "history: nothing requested" : served == 4096 ? "history: served from one refill" : served == 0 ? "history: no read" : "history: several refills");
  }
  r.bound = "random_data: every history of 1..3 requests with sizes in {0,1,2,4095,4096,4097,8191,8193} (584 histories), each replayed in 6 forked children (3 position-digit streams, constant 00, constant FF, string overload)";
}

VF_SECTION(vec2, 2, 2, 90) {
  vec_pairs<int64_t, 2>(r, -4, 4);
  vec_pairs<double, 2>(r, -4, 4);
  r.bound = "Vector2<int64_t> and Vector2<double>: all ordered pairs with components in [-4,4] (6561 each) and every (vector, scalar in [-4,4])";
}
VF_SECTION(vec3, 16, 16, 90) {
  vec_pairs<int64_t, 3>(r, -4, 4);
  vec_pairs<double, 3>(r, -4, 4);
  r.bound = "Vector3<int64_t> and Vector3<double>: all ordered pairs with components in [-4,4] (531441 each) and every (vector, scalar in [-4,4])";
}
VF_SECTION(vec4, 2, 2, 90) {
  vec_pairs<int64_t, 4>(r, -1, 1);
  vec_pairs<double, 4>(r, -1, 1);
  r.bound = "Vector4<int64_t> and Vector4<double>: all ordered pairs with components in [-1,1] (6561 each) and every (vector, scalar in [-1,1])";
}
VF_SECTION(order, 16, 16, 90) {
  vec_triples<int64_t, 2>(r, -4, 4);
  vec_triples<double, 2>(r, -4, 4);
  vec_triples<int64_t, 3>(r, -1, 1);
  vec_triples<double, 3>(r, -1, 1);
  vec_triples<int64_t, 4>(r, 0, 1);
  vec_triples<double, 4>(r, 0, 1);
  r.bound = "operator< strict-weak-order laws on all triples: Vector2 over [-4,4]^2 (531441), Vector3 over [-1,1]^3 (19683), Vector4 over {0,1}^4 (4096); int64_t and double";
}

template <class T>
static void matrix_laws(vf::Run& r) {
  r.note(std::string("Matrix4<") + tname<T>() + "> laws");
  MatCheck<T> ck(r);
  std::vector<MSpec> s1 = matrix_specs(1), s2 = matrix_specs(2);
  for (auto& s : s2) {
    if (!r.take()) continue;
    if (r.wants_desc()) r.desc(std::string("Matrix4<") + tname<T>() + "> single-matrix laws, A = " + s.str());
    ck.single(s);
  }
  // quick: (<=1 entry) x (<=2 entries) in both orders; thorough: all (<=2) x (<=2)
  if (r.thorough()) {
    for (auto& a : s2)
      for (auto& b : s2) {
        if (!r.take()) continue;
        if (r.wants_desc()) r.desc(std::string("Matrix4<") + tname<T>() + "> pair laws, A = " + a.str() + "; B = " + b.str());
        ck.pair(a, b);
      }
  } else {
    for (int order = 0; order < 2; order++)
      for (auto& a : s1)
        for (auto& b : s2) {
          if (!r.take()) continue;
          const MSpec& x = order ? b : a;
          const MSpec& y = order ? a : b;
          if (r.wants_desc()) r.desc(std::string("Matrix4<") + tname<T>() + "> pair laws, A = " + x.str() + "; B = " + y.str());
          ck.pair(x, y);
        }
  }
  for (auto& a : s1)
    for (auto& b : s1)
      for (auto& c : s1) {
        if (!r.take()) continue;
        if (r.wants_desc()) r.desc(std::string("Matrix4<") + tname<T>() + "> product of three elementary matrices, A = " + a.str() + "; B = " + b.str() + "; C = " + c.str());
        ck.triple(a, b, c);
      }
}

VF_SECTION(matrix, 16, 16, 90) {
  matrix_laws<int64_t>(r);
  matrix_laws<double>(r);
  r.bound = r.thorough() ? "Matrix4<int64_t>/<double>: 1985 matrices differing from I in <=2 entries (values -2,-1,1,2): single laws; all 1985^2 ordered pairs; all 65^3 products of three elementary matrices; 3 test vectors"
                         : "Matrix4<int64_t>/<double>: 1985 matrices differing from I in <=2 entries (values -2,-1,1,2): single laws; 65 x 1985 pairs in both orders; all 65^3 products of three elementary matrices; 3 test vectors";
}

VF_SECTION(invert, 16, 16, 90) {
  r.note("Matrix4<double>::inverse");
  static const double diag[4] = {5, -6, 9, 4.5};
  for (vf::Odometer o(std::vector<uint32_t>(12, 3)); !o.done; o.step()) {
    if (!r.take()) continue;
    RefM rm{};
    int k = 0;
    for (int i = 0; i < 4; i++)
      for (int j = 0; j < 4; j++) rm.e[i][j] = (i == j) ? diag[i] : (double)((int)o.d[k++] - 1);
    if (r.wants_desc()) r.desc("Matrix4<double> inverse of strictly diagonally dominant M = " + ref_str(rm));
    Matrix4<double> M = build<double>(rm);
    std::string oc;
    Matrix4<double> inv;
    oc = vf::outcome([&] { inv = M.inverse(); });
    r.nontriv();
    if (oc != "ok") {
      r.fail("Matrix4::inverse:throws", [&] { return "M = " + ref_str(rm) + " is strictly diagonally dominant but inverse() threw " + oc; });
      continue;
    }
    bool bad = false;
    RefM ri = unbuild(inv);
    RefM p1 = ref_mul(rm, ri), p2 = ref_mul(ri, rm);  // textbook products (independent of Matrix4::operator*)
    RefM q1 = unbuild(M * inv), q2 = unbuild(inv * M);
    double worst = 0;
    for (int i = 0; i < 4; i++)
      for (int j = 0; j < 4; j++) {
        double want = i == j ? 1 : 0;
        for (double got : {p1.e[i][j], p2.e[i][j], q1.e[i][j], q2.e[i][j]}) {
          double err = fabs(got - want);
          if (!(err <= worst)) worst = err;  // NaN propagates into worst
        }
      }
    if (!(worst <= 1e-9)) {
      bad = true;
      r.fail("Matrix4::inverse:M*inverse(M)!=I", [&] { return "M = " + ref_str(rm) + "; inverse() = " + ref_str(ri) + vf::fmt("; max |M*inv - I| = %g (tolerance 1e-9)", worst); });
    }
    {
      Matrix4<double> N = M;
      Matrix4<double>& ref = N.invert();
      if (&ref != &N || !(N == inv)) { bad = true; r.fail("Matrix4::invert:differs-from-inverse", [&] { return "M = " + ref_str(rm); }); }
      if (!ref_eq(unbuild(M), rm)) { bad = true; r.fail("Matrix4::inverse:modifies-operand", [&] { return "M = " + ref_str(rm); }); }
    }
    if (!bad) r.ok(worst == 0 ? "inverse exact" : worst < 1e-15 ? "inverse within 1e-15" : "inverse within 1e-9");
  }
  r.bound = "Matrix4<double>::inverse/invert for diagonal (5,-6,9,4.5) and all 3^12 = 531441 off-diagonal assignments over {-1,0,1} (strictly diagonally dominant by rows and columns)";
}

VF_MAIN()
