// C10, round 2 — call histories (state carried between calls), object/storage reuse, rare overloads, boundary seeds
// with prefix witnesses, misaligned and empty inputs, contexts (threads, catch handlers, unwinding), three-piece and
// read-loop chaining, 2^29 / 2^32-byte inputs.  Same oracle as C10.cc: OpenSSL EVP, zlib, published FNV recurrence.
//
// Every history is ONE case (one take()): the whole call sequence runs inside the case, so `--only <idx>` replays it.
#include <algorithm>
#include <condition_variable>
#include <mutex>

#include "C10_common.hh"

using namespace c10;

namespace {

// ---- history runner --------------------------------------------------------------------------------------------
// A thread that executes closures on demand, one at a time, while the caller waits (deterministic hand-over).
struct Worker {
  std::mutex m;
  std::condition_variable cv;
  std::function<void()> job;
  bool has = false, done = false, quit = false;
  std::thread t;
  Worker() : t([this] { loop(); }) {}
  void loop() {
    std::unique_lock<std::mutex> l(m);
    for (;;) {
      cv.wait(l, [&] { return has || quit; });
      if (quit) return;
      has = false;
      l.unlock();
      job();
      l.lock();
      done = true;
      cv.notify_all();
    }
  }
  void run(std::function<void()> f) {
    std::unique_lock<std::mutex> l(m);
    job = std::move(f);
    has = true;
    done = false;
    cv.notify_all();
    cv.wait(l, [&] { return done; });
  }
  ~Worker() {
    {
      std::lock_guard<std::mutex> l(m);
      quit = true;
    }
    cv.notify_all();
    t.join();
  }
};

struct Step {
  int fn, ov;
  Shape s;
  int who = 0;  // 0: the calling thread; 1, 2: worker threads
};
const char* who_name[3] = {"main thread", "worker thread 1", "worker thread 2"};

std::string show_steps(const std::vector<Step>& steps, bool with_threads) {
  std::string s;
  for (size_t i = 0; i < steps.size(); i++) {
    if (i) s += "; ";
    s += vf::fmt("#%zu %s%s %s", i + 1, fn_name[steps[i].fn], ov_name[steps[i].ov], show(steps[i].s).c_str());
    if (with_threads) s += std::string(" on ") + who_name[steps[i].who];
  }
  return s;
}

// Runs the calls in order.  Each result is judged when it is produced; every digest object stays alive and is
// rendered once more after the last call (latest object first, hex() before bin()): the renderings of an object must
// not change because other hashes were computed in between.
bool run_history(vf::Run& r, Cache& c, const std::vector<Step>& steps, Worker* workers = nullptr) {
  const size_t n = steps.size();
  std::vector<Held> held(n);
  std::vector<Obs> first(n);
  std::vector<const Buf*> bufs(n);
  std::vector<const std::string*> refs(n);
  for (size_t i = 0; i < n; i++) {  // inputs and references first: nothing but library calls between the library calls
    bufs[i] = &c.buf(steps[i].s);
    refs[i] = &c.ref(steps[i].fn, steps[i].s);
  }
  if (r.wants_desc()) r.desc("history: " + show_steps(steps, workers != nullptr));
  bool good = true;
  r.poison_errno();
  for (size_t i = 0; i < n; i++) {
    auto call = [&] { first[i] = call_any(steps[i].fn, steps[i].ov, bufs[i]->p, bufs[i]->n, &held[i]); };
    if (steps[i].who && workers) workers[steps[i].who - 1].run(call);
    else call();
    r.xchecked += steps[i].fn <= F_CRC32;
    good = judge(r, steps[i].fn, steps[i].ov, first[i], *refs[i], [&] { return vf::fmt("call #%zu of the history [", i + 1) + show_steps(steps, workers != nullptr) + "]"; }) && good;
  }
  for (size_t k = n; k-- > 0;) {
    if (!is_digest(steps[k].fn)) continue;
    Obs again = held[k].obs_reversed();
    if (again == first[k]) continue;
    good = false;
    r.fail(std::string(fn_name[steps[k].fn]) + ":render-unstable", [&] {
      return vf::fmt("object of call #%zu of the history [", k + 1) + show_steps(steps, workers != nullptr) + "] rendered " + hex_lower(first[k].bin) + " / " + first[k].hex + " right after construction and " +
          hex_lower(again.bin) + " / " + again.hex + " (state words " + hex_lower(again.state) + ") after the later calls";
    });
  }
  return good;
}

std::vector<Shape> shapes_of(const std::vector<size_t>& lens, const std::vector<int>& pats) {
  std::vector<Shape> v;
  for (size_t l : lens)
    for (int p : pats) v.push_back({l, p});
  return v;
}
std::vector<size_t> all_residues() {
  std::vector<size_t> v;
  for (size_t i = 0; i < 64; i++) v.push_back(i);
  return v;
}
const std::vector<size_t> kResidues = {0, 1, 2, 7, 8, 31, 32, 53, 54, 55, 56, 57, 58, 61, 62, 63};
const char* const kResiduesText = "{0,1,2,7,8,31,32,53..58,61,62,63}";

}  // namespace

// ---- (1) ordered pairs of calls of the same function, A then B then A again -------------------------------------
VF_SECTION(pairs, 16, 16, 300) {
  Cache c;
  std::vector<Shape> sh = shapes_of(lens_of(r.thorough() ? all_residues() : kResidues, {0, 1, 2}), {P_ZERO, P_FF, P_ASCII, P_LCG});
  for (int fn = 0; fn < NFN; fn++)
    for (int ov1 = 0; ov1 < n_ov(fn); ov1++)
      for (int ov2 = 0; ov2 < n_ov(fn); ov2++)
        for (const Shape& a : sh)
          for (const Shape& b : sh) {
            if (!r.take()) continue;
            r.note(std::string(fn_name[fn]) + "-pair");
            r.nontriv();
            if (run_history(r, c, {{fn, ov1, a}, {fn, ov2, b}, {fn, ov1, a}})) r.ok(std::string(fn_name[fn]) + ":A-B-A history equals reference at every call");
          }
  r.bound = vf::fmt("every ordered pair (A, B) of %zu shapes = lengths 64*{0,1,2} + residues %s x fills {00, FF, ASCII, LCG}; history f(A), f(B), f(A) for each of the 6 functions and every "
                    "(overload of A, overload of B) combination; digest objects re-rendered after the history",
      sh.size(), r.thorough() ? "0..63" : kResiduesText);
}

// ---- (1) ordered pairs of calls of two different functions -------------------------------------------------------
VF_SECTION(cross, 16, 16, 300) {
  Cache c;
  std::vector<Shape> sh = shapes_of(lens_of(r.thorough() ? all_residues() : kResidues, {0, 1, 2}), {P_FF, P_LCG});
  for (int f1 = 0; f1 < NFN; f1++)
    for (int f2 = 0; f2 < NFN; f2++) {
      if (f1 == f2) continue;
      for (const Shape& a : sh)
        for (const Shape& b : sh) {
          if (!r.take()) continue;
          r.note(std::string(fn_name[f1]) + "-then-" + fn_name[f2]);
          r.nontriv();
          if (run_history(r, c, {{f1, OV_PTR, a}, {f2, OV_PTR, b}, {f1, OV_PTR, a}})) r.ok("f(A), g(B), f(A) with f != g: equals reference at every call");
        }
    }
  r.bound = vf::fmt("every ordered pair of different functions (30) x every ordered pair of %zu shapes (%s x fills {FF, LCG}); history f(A), g(B), f(A)", sh.size(),
      (std::string("lengths 64*{0,1,2} + residues ") + (r.thorough() ? "0..63" : kResiduesText)).c_str());
}

// ---- (1) ordered triples ---------------------------------------------------------------------------------------
VF_SECTION(triples, 16, 16, 300) {
  Cache c;
  std::vector<size_t> lens = r.thorough() ? lens_of({0, 1, 55, 56, 57, 63}, {0, 1, 2}) : lens_of({0, 55, 56, 63}, {0, 1});
  std::vector<Shape> sh = shapes_of(lens, {P_FF, P_LCG});
  for (int fn = 0; fn < NFN; fn++)
    for (const Shape& a : sh)
      for (const Shape& b : sh)
        for (const Shape& d : sh) {
          if (!r.take()) continue;
          r.note(std::string(fn_name[fn]) + "-triple");
          r.nontriv();
          int ovb = n_ov(fn) > 1 ? OV_STR : OV_PTR;
          if (run_history(r, c, {{fn, OV_PTR, a}, {fn, ovb, b}, {fn, OV_PTR, d}})) r.ok(std::string(fn_name[fn]) + ":A-B-C history equals reference at every call");
        }
  // the three digest structs mixed (they share the tail-padding construction)
  for (int f1 = 0; f1 <= F_SHA256; f1++)
    for (int f2 = 0; f2 <= F_SHA256; f2++)
      for (int f3 = 0; f3 <= F_SHA256; f3++) {
        if (f1 == f2 && f2 == f3) continue;
        for (size_t a : lens)
          for (size_t b : lens)
            for (size_t d : lens) {
              if (!r.take()) continue;
              r.note("digest-mix-triple");
              r.nontriv();
              if (run_history(r, c, {{f1, OV_PTR, {a, P_LCG}}, {f2, OV_PTR, {b, P_FF}}, {f3, OV_PTR, {d, P_HIGH}}})) r.ok("digest-mix A-B-C history equals reference at every call");
            }
      }
  r.bound = vf::fmt("every ordered triple of %zu shapes (%zu lengths x fills {FF, LCG}) for each of the 6 functions (overloads ptr, string, ptr); every ordered triple of lengths for every "
                    "non-constant assignment of {MD5, SHA1, SHA256} to the three calls",
      sh.size(), lens.size());
}

// ---- (1) whole sweeps in one process: ascending, descending, zigzag, stride ---------------------------------------
VF_SECTION(sweeps, 16, 16, 600) {
  const size_t top = r.thorough() ? 1024 : 300;
  static const char* order_name[4] = {"ascending", "descending", "zigzag 0,N,1,N-1,...", "stride 37 mod N+1"};
  for (int fn = 0; fn < NFN; fn++)
    for (int ov = 0; ov < n_ov(fn); ov++)
      for (int pat = 0; pat < NPAT; pat++)
        for (int order = 0; order < 4; order++) {
          if (!r.take()) continue;
          Cache c;
          r.note(std::string(fn_name[fn]) + "-sweep");
          if (r.wants_desc()) r.desc(vf::fmt("%s%s on every length 0..%zu (%s fill), %s order, in one go", fn_name[fn], ov_name[ov], top, pat_name[pat], order_name[order]));
          std::vector<size_t> seq;
          for (size_t i = 0; i <= top; i++) {
            size_t len = order == 0 ? i : order == 1 ? top - i : order == 2 ? ((i & 1) ? top - i / 2 : i / 2) : (i * 37) % (top + 1);
            seq.push_back(len);
          }
          for (size_t len : seq) c.ref(fn, {len, pat});  // references and buffers first
          r.nontriv();
          r.poison_errno();
          bool good = true;
          size_t prev = 0;
          for (size_t i = 0; i < seq.size(); i++) {
            const Buf& b = c.buf({seq[i], pat});
            Obs o = call_any(fn, ov, b.p, b.n);
            r.counters["sweep_calls"]++;
            r.xchecked += fn <= F_CRC32;
            good = judge(r, fn, ov, o, c.ref(fn, {seq[i], pat}), [&] {
              return vf::fmt("%s%s of %zu bytes (%s fill) as call #%zu of a %s sweep over 0..%zu (previous call: %zu bytes)", fn_name[fn], ov_name[ov], seq[i], pat_name[pat], i + 1, order_name[order], top, prev);
            }) && good;
            prev = seq[i];
          }
          if (good) r.ok(std::string(fn_name[fn]) + ":whole sweep equals reference");
        }
  r.bound = vf::fmt("for each function x overload x 6 fills x 4 orders (ascending, descending, zigzag, stride 37): all lengths 0..%zu hashed one after the other in one case", top);
}

// ---- (1)(2) storage reuse: same address and size with other content; objects that already hold a digest ----------
VF_SECTION(storage, 16, 16, 300) {
  Cache c;
  std::vector<size_t> lens = lens_of(r.thorough() ? all_residues() : kResidues, {0, 1, 2});
  const std::vector<int> pats = {P_ZERO, P_FF, P_LCG, P_HIGH};
  // (a) one buffer / one std::string object, content replaced in place between the calls: p1, p2, p1 again;
  //     and single-byte changes (first, middle, last byte)
  for (int fn = 0; fn < NFN; fn++)
    for (int ov = 0; ov < n_ov(fn); ov++)
      for (size_t len : lens) {
        if (len == 0) continue;
        for (int variant = 0; variant < 15; variant++) {
          if (!r.take()) continue;
          r.note(std::string(fn_name[fn]) + "-same-storage");
          int p1 = variant < 12 ? pats[variant / 3] : P_LCG, p2 = P_LCG;
          if (variant < 12) {
            int k = variant % 3;
            int idx = 0;
            for (int q = 0; q < 4; q++)
              if (pats[q] != p1 && idx++ == k) p2 = pats[q];
          }
          size_t flip = variant == 12 ? 0 : variant == 13 ? len / 2 : len - 1;
          if (r.wants_desc())
            r.desc(variant < 12 ? vf::fmt("%s%s on one %zu-byte storage filled %s, then %s, then %s again", fn_name[fn], ov_name[ov], len, pat_name[p1], pat_name[p2], pat_name[p1])
                                : vf::fmt("%s%s on one %zu-byte storage (lcg), then with byte %zu inverted, then restored", fn_name[fn], ov_name[ov], len, flip));
          Buf raw(len, p1);
          std::string str = raw.str();
          auto content = [&]() -> uint8_t* { return ov == OV_STR ? reinterpret_cast<uint8_t*>(str.data()) : raw.p; };
          r.nontriv();
          bool good = true;
          r.poison_errno();
          for (int round = 0; round < 3; round++) {
            if (variant < 12) fill(content(), len, round == 1 ? p2 : p1);
            else if (round) content()[flip] ^= 0xFF;
            std::string ref = ref_value(fn, content(), len);
            Obs o;
            if (ov == OV_STR) {
              // the same std::string object (same data pointer, same size) with new characters
              if (fn == F_MD5) o = observe(phosg::MD5(str));
              else if (fn == F_SHA1) o = observe(phosg::SHA1(str));
              else if (fn == F_SHA256) o = observe(phosg::SHA256(str));
              else o.state = fn == F_FNV32 ? be32(phosg::fnv1a32(str)) : be64(phosg::fnv1a64(str));
            } else o = call_any(fn, OV_PTR, raw.p, len);
            r.xchecked += fn <= F_CRC32;
            good = judge(r, fn, ov, o, ref, [&] {
              return vf::fmt("%s%s, call #%d on the same %zu-byte storage after its content was replaced (variant %d: %s)", fn_name[fn], ov_name[ov], round + 1, len, variant,
                  variant < 12 ? (std::string(pat_name[p1]) + " / " + pat_name[p2] + " / " + pat_name[p1]).c_str() : "one byte inverted and restored");
            }) && good;
          }
          if (good) r.ok(std::string(fn_name[fn]) + ":same storage, new content: equals reference each time");
        }
      }
  // (b) digest objects that already exist: construction into storage holding zero bytes / FF bytes / another digest,
  //     assignment over an object holding another digest, self-assignment, copy over another object
  const std::vector<Shape> prev_shapes = {{0, P_ZERO}, {55, P_FF}, {56, P_LCG}, {64, P_HIGH}, {130, P_LCG}};
  for (int fn = 0; fn <= F_SHA256; fn++)
    for (int ov = 0; ov < NOV; ov++)
      for (size_t len : lens)
        for (int pat : {P_FF, P_LCG})
          for (size_t pre = 0; pre < prev_shapes.size() + 2; pre++) {
            if (!r.take()) continue;
            r.note(std::string(fn_name[fn]) + "-object-reuse");
            const Shape now{len, pat};
            const Buf& b = c.buf(now);
            const std::string& ref = c.ref(fn, now);
            const std::string pre_desc = pre == 0 ? "zero bytes" : pre == 1 ? "FF bytes" : ("the digest of " + show(prev_shapes[pre - 2]));
            if (r.wants_desc()) r.desc(vf::fmt("%s%s of %s built into / assigned over an object holding %s", fn_name[fn], ov_name[ov], show(now).c_str(), pre_desc.c_str()));
            r.nontriv();
            r.xchecked++;
            bool good = true;
            auto run = [&](auto tag) {
              using D = decltype(tag);
              alignas(D) unsigned char mem[sizeof(D)];
              memset(mem, pre == 1 ? 0xFF : 0x00, sizeof(mem));
              D* obj;
              const std::string as_string = b.str();
              r.poison_errno();
              if (pre >= 2) {
                const Buf& pb = c.buf(prev_shapes[pre - 2]);
                obj = new (mem) D(pb.p, pb.n);
                // assignment over an object that holds another digest
                if (ov == OV_STR) *obj = D(as_string);
                else *obj = D(b.p, b.n);
              } else {
                obj = ov == OV_STR ? new (mem) D(as_string) : new (mem) D(b.p, b.n);
              }
              auto where = [&](const char* what) { return vf::fmt("%s%s of %s, %s (object held %s before)", fn_name[fn], ov_name[ov], show(now).c_str(), what, pre_desc.c_str()); };
              good = judge(r, fn, ov, observe(*obj), ref, [&] { return where(pre >= 2 ? "assigned over an existing object" : "constructed into prepared storage"); }) && good;
              D& alias = *obj;
              *obj = alias;  // self-assignment
              Obs self = observe(*obj);
              // copy-assign over a third object holding yet another digest, then destroy the source's storage content
              const Buf& ob = c.buf(prev_shapes[(pre + 1) % prev_shapes.size()]);
              D other(ob.p, ob.n);
              other = *obj;
              memset(mem, 0xA5, sizeof(mem));
              Obs copied = observe(other);
              if (self.state != ref || self.bin != ref || copied.state != ref || copied.bin != ref || to_lower(copied.hex) != hex_lower(ref)) {
                good = false;
                r.fail(std::string(fn_name[fn]) + ":object-state", [&] {
                  return where("after self-assignment / copy-assignment over another object") + ": self-assigned object renders " + hex_lower(self.bin) + ", the copy renders " + hex_lower(copied.bin) + " / " + copied.hex +
                      ", digest is " + hex_lower(ref);
                });
              }
            };
            const Buf& seed_buf = c.buf({3, P_ASCII});
            if (fn == F_MD5) run(phosg::MD5(seed_buf.p, seed_buf.n));
            else if (fn == F_SHA1) run(phosg::SHA1(seed_buf.p, seed_buf.n));
            else run(phosg::SHA256(seed_buf.p, seed_buf.n));
            if (good) r.ok(std::string(fn_name[fn]) + ":object reuse: equals reference");
          }
  r.bound = vf::fmt("(a) 6 functions x overloads x %zu lengths x {12 ordered fill pairs p1,p2,p1 of {00,FF,LCG,high}, 3 single-byte inversions} on ONE buffer / ONE std::string object; "
                    "(b) MD5/SHA1/SHA256 x 2 constructors x %zu lengths x fills {FF, LCG} x 7 prior object states (zero storage, FF storage, 5 other digests): placement construction, "
                    "assignment over, self-assignment, copy-assignment",
      lens.size() - 1, lens.size());
}

// ---- (3)(4) misaligned data pointers, every representation of the empty byte string -------------------------------
VF_SECTION(misaligned, 16, 16, 300) {
  std::vector<size_t> lens = {0, 1, 3, 4, 55, 56, 63, 64, 65, 119, 120, 127, 128, 129, 200, 257};
  if (r.thorough())
    for (size_t n = 258; n <= 520; n++) lens.push_back(n);
  for (int fn = 0; fn < NFN; fn++)
    for (size_t len : lens)
      for (size_t mis = 1; mis < 16; mis++)
        for (int pat : {P_LCG, P_HIGH}) {
          if (!r.take()) continue;
          r.note(std::string(fn_name[fn]) + "-misaligned");
          if (r.wants_desc()) r.desc(vf::fmt("%s(ptr,size) on %zu bytes (%s fill) starting %zu bytes past a 16-byte boundary", fn_name[fn], len, pat_name[pat], mis));
          Buf b(len, pat, mis);
          std::string ref = ref_value(fn, b.p, b.n);
          r.xchecked += fn <= F_CRC32;
          r.nontriv();
          r.poison_errno();
          Obs o = call_any(fn, OV_PTR, b.p, b.n);
          if (judge(r, fn, OV_PTR, o, ref, [&] { return vf::fmt("%s of %zu bytes (%s fill), data pointer %zu bytes past a 16-byte boundary", fn_name[fn], len, pat_name[pat], mis); }))
            r.ok(std::string(fn_name[fn]) + ":misaligned pointer: equals reference");
        }
  // the empty byte string in every representation (the repository's own tests pass nullptr with size 0)
  static const char* rep_name[] = {"(nullptr, 0)", "(pointer to an inaccessible page, 0)", "(one past the end of a 64-byte buffer, 0)", "std::string()", "std::string with capacity 200 and size 0",
      "moved-from std::string", "\"\" converted to std::string"};
  vf::GuardBuf guard(0);
  Buf sixty_four(64, P_LCG);
  for (int fn = 0; fn < NFN; fn++)
    for (int rep = 0; rep < 7; rep++) {
      if (rep >= 3 && fn == F_CRC32) continue;
      if (!r.take()) continue;
      r.note(std::string(fn_name[fn]) + "-empty");
      if (r.wants_desc()) r.desc(vf::fmt("%s of the empty byte string given as %s", fn_name[fn], rep_name[rep]));
      std::string ref = ref_value(fn, sixty_four.p, 0);
      r.nontriv();
      r.poison_errno();
      Obs o;
      if (rep < 3) {
        const uint8_t* p = rep == 0 ? nullptr : rep == 1 ? guard.data : sixty_four.p + 64;
        o = call_any(fn, OV_PTR, p, 0);
      } else {
        std::string s;
        if (rep == 4) s.reserve(200);
        if (rep == 5) {
          std::string big(100, 'x');
          std::string sink = std::move(big);
          s = std::move(big);  // NOLINT: deliberately a moved-from value (valid, and empty in libstdc++)
          if (!s.empty()) s.clear();
        }
        if (fn == F_MD5) o = rep == 6 ? observe(phosg::MD5("")) : observe(phosg::MD5(s));
        else if (fn == F_SHA1) o = rep == 6 ? observe(phosg::SHA1("")) : observe(phosg::SHA1(s));
        else if (fn == F_SHA256) o = rep == 6 ? observe(phosg::SHA256("")) : observe(phosg::SHA256(s));
        else if (fn == F_FNV32) o.state = be32(rep == 6 ? phosg::fnv1a32("") : phosg::fnv1a32(s));
        else o.state = be64(rep == 6 ? phosg::fnv1a64("") : phosg::fnv1a64(s));
      }
      if (judge(r, fn, rep < 3 ? OV_PTR : OV_STR, o, ref, [&] { return vf::fmt("%s of the empty byte string given as %s", fn_name[fn], rep_name[rep]); })) r.ok(std::string(fn_name[fn]) + ":empty input: equals reference");
    }
  r.bound = vf::fmt("6 functions x %zu lengths x data pointer 1..15 bytes past a 16-byte boundary x fills {LCG, high}; the empty byte string as (nullptr,0), (guard page,0), (one-past-end,0) and 4 "
                    "std::string forms",
      lens.size());
}

// ---- (4) boundary seeds, each witnessed by a prefix ---------------------------------------------------------------
VF_SECTION(seeds, 16, 16, 300) {
  // suffixes
  std::vector<Shape> suf = shapes_of(r.thorough() ? std::vector<size_t>{0, 1, 2, 3, 4, 5, 7, 8, 9, 15, 16, 17, 55, 56, 63, 64, 65, 127, 128, 129, 255, 256, 257}
                                                  : std::vector<size_t>{0, 1, 2, 3, 4, 5, 7, 8, 9, 63, 64, 65},
      {P_FF, P_LCG, P_ASCII});
  // crc32: 2^k - 1, 2^k, 2^k + 1 for every k, and a few constants of the algorithm
  std::vector<uint32_t> crc_seeds;
  {
    std::vector<uint64_t> raw = {0xEDB88320u, 0x04C11DB7u, 0xDEBB20E3u, 0x2144DF1Cu, 0xCBF43926u};
    for (int k = 0; k <= 32; k++)
      for (int d = -1; d <= 1; d++) raw.push_back(((uint64_t(1) << k) + d) & 0xFFFFFFFFull);
    for (uint64_t v : raw)
      if (std::find(crc_seeds.begin(), crc_seeds.end(), static_cast<uint32_t>(v)) == crc_seeds.end()) crc_seeds.push_back(static_cast<uint32_t>(v));
  }
  struct SeedCase {
    int fn;
    Witness w;
  };
  std::vector<SeedCase> all;
  for (uint32_t s : crc_seeds) {
    auto p = crc32_witness(s);
    all.push_back({F_CRC32, {s, std::vector<uint8_t>(p.begin(), p.end())}});
  }
  for (auto& w : fnv32_witnesses()) all.push_back({F_FNV32, w});
  for (auto& w : fnv64_witnesses()) all.push_back({F_FNV64, w});
  for (auto& sc : all)
    for (int ov = 0; ov < n_ov(sc.fn); ov++)
      for (const Shape& s : suf)
        for (int nullsuffix = 0; nullsuffix < (s.len == 0 && s.pat == P_FF && ov == OV_PTR ? 2 : 1); nullsuffix++) {
          if (!r.take()) continue;
          const int fn = sc.fn;
          r.note(std::string(fn_name[fn]) + "-seed");
          Buf b(s.len, s.pat);
          // expected: the reference ONE-SHOT hash of prefix + suffix (not the reference's own seeded form)
          Buf whole(sc.w.prefix.size() + s.len, P_ZERO);
          if (!sc.w.prefix.empty()) memcpy(whole.p, sc.w.prefix.data(), sc.w.prefix.size());
          if (s.len) memcpy(whole.p + sc.w.prefix.size(), b.p, s.len);
          const uint64_t ref = ref_u_seeded(fn, whole.p, whole.n, start_of(fn));
          if (r.wants_desc())
            r.desc(vf::fmt("%s%s on %s%s with seed %s, which is the %s of the %zu-byte prefix %s", fn_name[fn], ov_name[ov], show(s).c_str(), nullsuffix ? " given as (nullptr, 0)" : "",
                show_u(fn, sc.w.seed).c_str(), fn_name[fn], sc.w.prefix.size(), hex_lower(std::string(sc.w.prefix.begin(), sc.w.prefix.end())).c_str()));
          r.nontriv();
          r.xchecked += fn == F_CRC32;
          r.poison_errno();
          // the library's own hash of the prefix must be the seed (one-shot correctness), then the seeded call
          uint64_t pre = call_u(fn, ov, sc.w.prefix.data(), sc.w.prefix.size());
          uint64_t got = call_u_seeded(fn, ov, nullsuffix ? nullptr : b.p, s.len, sc.w.seed);
          if (pre != sc.w.seed)
            r.fail(std::string(fn_name[fn]) + (ov == OV_STR ? ":string-overload" : ":wrong-value"), [&] {
              return vf::fmt("%s%s of the %zu-byte prefix %s = %s, reference %s", fn_name[fn], ov_name[ov], sc.w.prefix.size(), hex_lower(std::string(sc.w.prefix.begin(), sc.w.prefix.end())).c_str(),
                  show_u(fn, pre).c_str(), show_u(fn, sc.w.seed).c_str());
            });
          else if (got != ref)
            r.fail(std::string(fn_name[fn]) + (ov == OV_STR ? ":chain-string-overload" : ":chain"), [&] {
              return vf::fmt("%s%s(b = %s%s, seed %s) = %s; the seed is the %s of the prefix %s and the concatenation hashes to %s", fn_name[fn], ov_name[ov], show(s).c_str(), nullsuffix ? " as (nullptr,0)" : "",
                  show_u(fn, sc.w.seed).c_str(), show_u(fn, got).c_str(), fn_name[fn], hex_lower(std::string(sc.w.prefix.begin(), sc.w.prefix.end())).c_str(), show_u(fn, ref).c_str());
            });
          else r.ok(std::string(fn_name[fn]) + ":boundary seed with prefix witness: chain equals one-shot of the concatenation");
        }
  // fnv1a64 boundary seeds for which no prefix is known: executed (memory safety, termination), not compared
  for (uint64_t s : {uint64_t(1), uint64_t(0xFFFFFFFFull), uint64_t(1) << 32, (uint64_t(1) << 63) - 1, uint64_t(1) << 63, ~uint64_t(0) - 1, ~uint64_t(0)})
    for (int ov = 0; ov < NOV; ov++)
      for (const Shape& sh : suf) {
        if (!r.take()) continue;
        r.note("fnv1a64-unwitnessed-seed");
        Buf b(sh.len, sh.pat);
        uint64_t got = call_u_seeded(F_FNV64, ov, b.p, b.n, s);
        r.ok(got == ref_fnv64(b.p, b.n, s) ? "fnv1a64:seed without a known prefix (executed, NOT compared): follows the recurrence" : "fnv1a64:seed without a known prefix (executed, NOT compared): differs from the recurrence");
      }
  r.bound = vf::fmt("crc32: %zu seeds (2^k-1, 2^k, 2^k+1 for k = 0..32 and 5 algorithm constants), each with its 4-byte prefix computed by running the CRC register backwards; fnv1a32: %zu seeds "
                    "(0, 1, 2, 2^31-1, 2^31, 2^31+1, 2^32-2, 2^32-1, 2^16-1, 2^16, offset basis, prime, ...) with prefixes found by meet-in-the-middle; fnv1a64: %zu seeds (0, offset basis, "
                    "prime, 255*prime, 128*prime); x overloads x %zu suffixes (incl. empty, and (nullptr,0))",
      crc_seeds.size(), fnv32_witnesses().size(), fnv64_witnesses().size(), suf.size());
}

// ---- (6) three pieces, and read loops with empty reads -------------------------------------------------------------
VF_SECTION(chain3, 16, 16, 300) {
  const size_t top = r.thorough() ? 40 : 20;
  for (size_t len = 0; len <= top; len++)
    for (int pat : {P_FF, P_LCG, P_ASCII})
      for (size_t i = 0; i <= len; i++)
        for (size_t j = i; j <= len; j++)
          for (int fn = F_CRC32; fn <= F_FNV64; fn++) {
            if (!r.take()) continue;
            r.note(std::string(fn_name[fn]) + "-chain3");
            if (r.wants_desc()) r.desc(vf::fmt("%s chained over %zu + %zu + %zu bytes (%s fill), every overload combination", fn_name[fn], i, j - i, len - j, pat_name[pat]));
            Buf whole(len, pat);
            Buf a(i, P_ZERO), b(j - i, P_ZERO), d(len - j, P_ZERO);
            if (i) memcpy(a.p, whole.p, i);
            if (j - i) memcpy(b.p, whole.p + i, j - i);
            if (len - j) memcpy(d.p, whole.p + j, len - j);
            const uint64_t ref = ref_u_seeded(fn, whole.p, len, start_of(fn));
            r.nontriv();
            r.xchecked += fn == F_CRC32;
            r.poison_errno();
            bool good = true;
            const int no = n_ov(fn);
            for (int combo = 0; combo < no * no * no; combo++) {
              int o1 = combo % no, o2 = (combo / no) % no, o3 = combo / (no * no);
              uint64_t h1 = call_u(fn, o1, a.p, a.n);
              uint64_t h2 = call_u_seeded(fn, o2, b.p, b.n, h1);
              uint64_t h3 = call_u_seeded(fn, o3, d.p, d.n, h2);
              if (h3 == ref) continue;
              good = false;
              r.fail(std::string(fn_name[fn]) + (combo ? ":chain-string-overload" : ":chain"), [&] {
                return vf::fmt("%s over three pieces of %zu, %zu, %zu bytes (%s fill; overloads %s, %s, %s): %s -> %s -> %s, the concatenation hashes to %s", fn_name[fn], i, j - i, len - j, pat_name[pat], ov_name[o1],
                    ov_name[o2], ov_name[o3], show_u(fn, h1).c_str(), show_u(fn, h2).c_str(), show_u(fn, h3).c_str(), show_u(fn, ref).c_str());
              });
            }
            if (good) r.ok(std::string(fn_name[fn]) + ":three-piece chain equals whole");
          }
  // read loops: fixed chunk size, an empty read folded in at the start, in the middle and at the end
  const size_t rtop = r.thorough() ? 300 : 130;
  for (size_t len = 0; len <= rtop; len++)
    for (int pat : {P_LCG, P_HIGH})
      for (size_t chunk : {1, 2, 3, 5, 7, 8, 16, 63, 64, 65})
        for (int fn = F_CRC32; fn <= F_FNV64; fn++) {
          if (!r.take()) continue;
          r.note(std::string(fn_name[fn]) + "-readloop");
          if (r.wants_desc()) r.desc(vf::fmt("%s folded over %zu bytes (%s fill) in reads of %zu bytes with empty reads before, between and after", fn_name[fn], len, pat_name[pat], chunk));
          Buf whole(len, pat);
          const uint64_t ref = ref_u_seeded(fn, whole.p, len, start_of(fn));
          r.nontriv();
          r.xchecked += fn == F_CRC32;
          r.poison_errno();
          uint64_t h = start_of(fn);
          size_t calls = 0;
          auto fold = [&](const uint8_t* p, size_t n, int ov) {
            h = call_u_seeded(fn, n_ov(fn) > 1 ? ov : OV_PTR, p, n, h);
            calls++;
            // an unrelated call between two reads (another function, rotating, on the same piece): must not disturb the fold
            int other = static_cast<int>((fn + 1 + calls) % NFN);
            if (other == fn) other = (other + 1) % NFN;
            (void)call_any(other, OV_PTR, p, n);
          };
          fold(whole.p, 0, OV_PTR);  // empty first read
          for (size_t off = 0; off < len; off += chunk) {
            Buf piece(std::min(chunk, len - off), P_ZERO);
            memcpy(piece.p, whole.p + off, piece.n);
            fold(piece.p, piece.n, (off / chunk) & 1);
            if (off == (len / chunk / 2) * chunk) fold(nullptr, 0, OV_PTR);  // an empty read in the middle, as (nullptr, 0)
          }
          fold(whole.p + len, 0, OV_STR);  // the final 0-byte read
          fold(nullptr, 0, OV_PTR);
          if (h != ref) r.fail(std::string(fn_name[fn]) + ":chain", [&] { return vf::fmt("%s folded over %zu bytes (%s fill) in %zu reads of <= %zu bytes (with empty reads) = %s, the whole hashes to %s", fn_name[fn], len, pat_name[pat], calls, chunk, show_u(fn, h).c_str(), show_u(fn, ref).c_str()); });
          else r.ok(std::string(fn_name[fn]) + ":read loop equals whole");
        }
  r.bound = vf::fmt("crc32/fnv1a32/fnv1a64: every pair of split points i <= j of every input of length 0..%zu x fills {FF, LCG, ASCII} x every overload combination of the three calls; read loops over every "
                    "length 0..%zu x fills {LCG, high} x chunk sizes {1,2,3,5,7,8,16,63,64,65} with empty reads at the start, middle and end (valid pointer, one-past-end, nullptr) and a call of another function after every read",
      top, rtop);
}

// ---- (5) contexts ---------------------------------------------------------------------------------------------
VF_SECTION(context, 16, 16, 300) {
  Cache c;
  const std::vector<size_t> lens = {0, 1, 55, 56, 63, 64, 120};
  for (int fn = 0; fn < NFN; fn++)
    for (int ov = 0; ov < n_ov(fn); ov++)
      for (size_t len : lens)
        for (int pat : {P_FF, P_LCG})
          for (int cx = 0; cx < NCTX; cx++) {
            if (!r.take()) continue;
            r.note(std::string(fn_name[fn]) + "-context");
            const Shape s{len, pat};
            const Buf& b = c.buf(s);
            const std::string& ref = c.ref(fn, s);
            if (r.wants_desc()) r.desc(vf::fmt("%s%s of %s: %s", fn_name[fn], ov_name[ov], show(s).c_str(), ctx_name[cx]));
            r.nontriv();
            r.xchecked += fn <= F_CRC32;
            Obs o;
            std::string escaped;
            const int amb = r.ambient_errno();
            auto body = [&] {
              errno = amb;
              try {
                o = call_any(fn, ov, b.p, b.n);
              } catch (const std::exception& e) {
                escaped = e.what();
              }
            };
            in_ctx(cx, body);
            if (!escaped.empty()) r.fail(std::string(fn_name[fn]) + (ov == OV_STR ? ":string-overload" : is_digest(fn) ? ":wrong-digest" : ":wrong-value"), [&] { return vf::fmt("%s%s of %s, %s: threw %s", fn_name[fn], ov_name[ov], show(s).c_str(), ctx_name[cx], escaped.c_str()); });
            else if (judge(r, fn, ov, o, ref, [&] { return vf::fmt("%s%s of %s, %s", fn_name[fn], ov_name[ov], show(s).c_str(), ctx_name[cx]); })) r.ok(std::string(fn_name[fn]) + ":in context: equals reference");
          }
  // histories spread over threads: A, B, A with every assignment of {main, worker 1, worker 2} to the three calls
  const std::vector<size_t> hl = {1, 55, 56, 63, 64, 120};
  for (int fn = 0; fn < NFN; fn++)
    for (int w1 = 0; w1 < 3; w1++)
      for (int w2 = 0; w2 < 3; w2++)
        for (int w3 = 0; w3 < 3; w3++) {
          if (w1 == 0 && w2 == 0 && w3 == 0) continue;  // that is section pairs
          for (size_t la : hl)
            for (size_t lb : hl) {
              if (!r.take()) continue;
              r.note(std::string(fn_name[fn]) + "-threads");
              r.nontriv();
              Worker workers[2];
              if (run_history(r, c, {{fn, OV_PTR, {la, P_LCG}, w1}, {fn, OV_PTR, {lb, P_FF}, w2}, {fn, OV_PTR, {la, P_LCG}, w3}}, workers)) r.ok(std::string(fn_name[fn]) + ":A-B-A history over threads equals reference");
            }
        }
  r.bound = "6 functions x overloads x lengths {0,1,55,56,63,64,120} x fills {FF, LCG} x 5 contexts (plain, first call on a fresh thread, inside a catch handler, in a destructor during unwinding, "
            "catch handler of a thread started from a catch handler); histories f(A), f(B), f(A) with every assignment of {main, worker 1, worker 2} to the calls x 36 length pairs";
}

// ---- (4) inputs of 2^29 and 2^32 bytes -------------------------------------------------------------------------
// quick: one length (2^29 + 56: the bit count no longer fits 32 bits, two-block tail), 6 shards = one function each.
VF_SECTION(huge, 6, 16, 7200) {
  const size_t G = size_t(1) << 29;
  std::vector<size_t> lens = {G + 56};
  if (r.thorough()) lens = {G - 1, G, G + 8, G + 56, (size_t(1) << 32) - 1, size_t(1) << 32, (size_t(1) << 32) + 56};
  for (size_t len : lens)
    for (int fn = 0; fn < NFN; fn++) {
      if (!r.take()) continue;
      r.note(std::string(fn_name[fn]) + "-huge");
      if (r.wants_desc()) r.desc(vf::fmt("%s(ptr,size) on %zu bytes (2 MiB LCG pattern mapped repeatedly, read-only, flush against an inaccessible page)", fn_name[fn], len));
      BigMap m(len);
      std::string ref = ref_value(fn, m.data, len);
      r.xchecked += fn <= F_CRC32;
      r.nontriv();
      r.poison_errno();
      Obs o = call_any(fn, OV_PTR, m.data, len);
      bool good = judge(r, fn, OV_PTR, o, ref, [&] { return vf::fmt("%s of %zu bytes (periodic LCG content)", fn_name[fn], len); });
      if (good && !is_digest(fn)) {
        // split at 2^31 + 1 (odd, beyond int range): seed chaining across a huge suffix
        size_t k = std::min(len, (size_t(1) << 31) + 1);
        if (len < (size_t(1) << 31)) k = (size_t(1) << 28) + 3;
        uint64_t h = call_u_seeded(fn, OV_PTR, m.data + k, len - k, call_u(fn, OV_PTR, m.data, k));
        if (bytes_of(fn, h) != ref) {
          good = false;
          r.fail(std::string(fn_name[fn]) + ":chain", [&] { return vf::fmt("%s over %zu + %zu bytes chained = %s, the whole hashes to %s", fn_name[fn], k, len - k, show_u(fn, h).c_str(), hex_lower(ref).c_str()); });
        }
      }
      if (good) r.ok(std::string(fn_name[fn]) + ":huge input: equals reference");
    }
  r.bound = r.thorough() ? "6 functions x sizes {2^29-1, 2^29, 2^29+8, 2^29+56, 2^32-1, 2^32, 2^32+56} (periodic LCG content, read-only mapping ending at a guard page); integer functions also chained across a split"
                         : "6 functions x size 2^29+56 (periodic LCG content, read-only mapping ending at a guard page); integer functions also chained across a split at 2^28+3";
}
