// C02_derived.hh — readers that are not fresh (constructed with a cursor, sub-readers of sub-readers
// at non-zero offsets, truncated, copied / assigned over a reader holding something else, backed by a
// std::string or a shared_ptr), ordered pairs of positional calls, and calling contexts
// (included by C02.cc after C02_cursor.hh).
#pragma once

namespace {

struct Derived {
  Placement pl;
  std::string s;                     // backing store of the std::string forms
  std::shared_ptr<std::string> sp;   // backing store of the shared_ptr forms
  Exact other;                       // what an assigned-over reader held before
  std::vector<View> views;

  void add(const std::string& how, size_t delta, size_t n, uint64_t w0, std::function<StringReader()> mk) {
    View v;
    v.how = vf::fmt("%s [%zu bytes at parent offset %zu; parent: %zu bytes, %s]", how.c_str(), n, delta, pl.n, pl.name);
    v.base = pl.base + delta;
    v.content = CONTENT + delta;
    v.n = n;
    v.w0 = w0;
    v.make = std::move(mk);
    views.push_back(std::move(v));
  }

  Derived(int which, size_t N) : pl(which, N), s((const char*)CONTENT, N), sp(new std::string((const char*)CONTENT, N)), other(3, 0x5A) {
    const uint8_t* P = pl.base;
    const uint8_t* O = other.p;
    auto S = [](uint64_t x) { return u64s(x); };
    // (1) cursor elsewhere at construction: positional forms must not care, cursor forms start there
    std::vector<uint64_t> ws = {1, N, N + 1, 1ull << 63, ~0ull};
    if (N >= 2) ws.push_back(N - 1);
    if (N >= 5) ws.push_back(3);
    std::sort(ws.begin(), ws.end());
    ws.erase(std::unique(ws.begin(), ws.end()), ws.end());
    for (uint64_t w : ws) add("StringReader(ptr, " + S(N) + ", " + S(w) + ")", 0, N, w, [=] { return StringReader(P, N, w); });
    // (2) sub-readers that end inside the parent, and sub-readers of sub-readers
    if (N >= 2) {
      add("sub(1)", 1, N - 1, 0, [=] { return StringReader(P, N).sub(1); });
      add("subx(1, 1)", 1, 1, 0, [=] { return StringReader(P, N).subx(1, 1); });
      add("sub(1, 2^64-1)", 1, N - 1, 0, [=] { return StringReader(P, N).sub(1, ~0ull); });
      add("sub(0, " + S(N - 1) + ")", 0, N - 1, 0, [=] { return StringReader(P, N).sub(0, N - 1); });
    }
    if (N >= 5) {
      add("sub(1, " + S(N - 2) + ")", 1, N - 2, 0, [=] { return StringReader(P, N).sub(1, N - 2); });
      add("subx(1, " + S(N - 2) + ")", 1, N - 2, 0, [=] { return StringReader(P, N).subx(1, N - 2); });
      add("subx(2)", 2, N - 2, 0, [=] { return StringReader(P, N).subx(2); });
      add("sub(2).sub(1, 2^64-1)", 3, N - 3, 0, [=] { return StringReader(P, N).sub(2).sub(1, ~0ull); });
      add("sub(1, " + S(N - 2) + ").sub(1, " + S(N - 4) + ")", 2, N - 4, 0, [=] { return StringReader(P, N).sub(1, N - 2).sub(1, N - 4); });
      add("subx(1).subx(2, 2)", 3, 2, 0, [=] { return StringReader(P, N).subx(1).subx(2, 2); });
      add("subx(1, " + S(N - 2) + ").sub(" + S(N - 3) + ")", N - 2, 1, 0, [=] { return StringReader(P, N).subx(1, N - 2).sub(N - 3); });
      add("StringReader(ptr, " + S(N) + ", 3).sub(1, 3)", 1, 3, 0, [=] { return StringReader(P, N, 3).sub(1, 3); });
      add("StringReader(ptr, " + S(N) + ", " + S(N) + ").subx(0, " + S(N) + ")", 0, N, 0, [=] { return StringReader(P, N, N).subx(0, N); });
      add("sub(1, " + S(N - 2) + ") then go(2)", 1, N - 2, 2, [=] { StringReader x = StringReader(P, N).sub(1, N - 2); x.go(2); return x; });
    }
    add("subx(" + S(N) + ")", N, 0, 0, [=] { return StringReader(P, N).subx(N); });
    add("sub(" + S(N + 1) + ")", 0, 0, 0, [=] { return StringReader(P, N).sub(N + 1); });
    if (N >= 5) add("sub(1, " + S(N - 2) + ").subx(" + S(N - 2) + ")", N - 1, 0, 0, [=] { return StringReader(P, N).sub(1, N - 2).subx(N - 2); });
    // (3) truncated
    if (N >= 5) add("StringReader(ptr, " + S(N) + ") then truncate(" + S(N - 3) + ")", 0, N - 3, 0, [=] { StringReader x(P, N); x.truncate(N - 3); return x; });
    if (N >= 2) add("StringReader(ptr, " + S(N) + ", 1) then truncate(1)", 0, 1, 1, [=] { StringReader x(P, N, 1); x.truncate(1); return x; });
    // (4) copies, moves, assignment over a reader that already holds something else, self-assignment
    add("copy of StringReader(ptr, " + S(N) + ", 1)", 0, N, 1, [=] { StringReader a(P, N, 1); StringReader b(a); return b; });
    add("move of StringReader(ptr, " + S(N) + ", 1)", 0, N, 1, [=] { StringReader a(P, N, 1); StringReader b(std::move(a)); return b; });
    add("StringReader(other, 3, 2) copy-assigned from StringReader(ptr, " + S(N) + ", 1)", 0, N, 1, [=] { StringReader a(O, 3, 2); StringReader b(P, N, 1); a = b; return a; });
    add("StringReader(other, 3, 2) move-assigned from StringReader(ptr, " + S(N) + ")", 0, N, 0, [=] { StringReader a(O, 3, 2); a = StringReader(P, N); return a; });
    add("default StringReader() copy-assigned from StringReader(ptr, " + S(N) + ", " + S(N) + ")", 0, N, N, [=] { StringReader a; StringReader b(P, N, N); a = b; return a; });
    add("self-assigned StringReader(ptr, " + S(N) + ", 1)", 0, N, 1, [=] { StringReader a(P, N, 1); StringReader& ra = a; a = ra; return a; });
    {
      auto spc = sp;
      add("shared_ptr-backed reader copy-assigned from StringReader(ptr, " + S(N) + ", 1)", 0, N, 1, [=] { StringReader a(spc, 2); StringReader b(P, N, 1); a = b; return a; });
    }
    // (5) std::string- and shared_ptr-backed readers (the data live in the string: small-string buffer for these sizes)
    auto add_at = [&](const std::string& how, const uint8_t* base, size_t delta, size_t n, uint64_t w0, bool dyn, std::function<StringReader()> mk) {
      View v;
      v.how = vf::fmt("%s [%zu bytes]", how.c_str(), n);
      v.base = base;
      v.content = CONTENT + delta;
      v.n = n;
      v.w0 = w0;
      v.dyn_base = dyn;
      v.make = std::move(mk);
      views.push_back(std::move(v));
    };
    if (which == 0) {  // placement-independent: once
      const std::string* sptr = &s;
      const uint8_t* SB = (const uint8_t*)s.data();
      auto spc = sp;
      const uint8_t* PB = (const uint8_t*)sp->data();
      add_at("StringReader(const std::string&)", SB, 0, N, 0, false, [=] { return StringReader(*sptr); });
      add_at("StringReader(const std::string&, 1)", SB, 0, N, 1, false, [=] { return StringReader(*sptr, 1); });
      add_at("StringReader(const std::string&, " + S(N + 1) + ")", SB, 0, N, N + 1, false, [=] { return StringReader(*sptr, N + 1); });
      add_at("StringReader(shared_ptr<string>)", PB, 0, N, 0, false, [=] { return StringReader(spc); });
      add_at("StringReader(shared_ptr<string>, " + S(N) + ")", PB, 0, N, N, false, [=] { return StringReader(spc, N); });
      add_at("StringReader(shared_ptr<string>, 2^64-1)", PB, 0, N, ~0ull, false, [=] { return StringReader(spc, ~0ull); });
      add_at("StringReader(shared_ptr<string>) as sole owner (the caller's pointer reset)", nullptr, 0, N, 1, true, [=] { auto p = std::make_shared<std::string>((const char*)CONTENT, N); StringReader a(p, 1); p.reset(); return a; });
      add_at("copy of a sole-owner StringReader(shared_ptr<string>) whose original was destroyed", nullptr, 0, N, 0, true, [=] {
        std::unique_ptr<StringReader> a(new StringReader(std::make_shared<std::string>((const char*)CONTENT, N)));
        StringReader b(*a);
        a.reset();
        return b;
      });
      if (N >= 2) add_at("StringReader(shared_ptr<string>).sub(1) after truncate(" + S(N - 1) + ")", PB + 1, 1, N - 2, 0, false, [=] { StringReader a(spc); a.truncate(N - 1); return a.sub(1); });
      if (N >= 2) add_at("StringReader(shared_ptr<string>, 1) after truncate(" + S(N - 1) + ")", PB, 0, N - 1, 1, false, [=] { StringReader a(spc, 1); a.truncate(N - 1); return a; });
      add_at("default StringReader()", nullptr, 0, 0, 0, false, [] { return StringReader(); });
    }
  }
};

const size_t DERIVED_NS[] = {8, 2, 0};

}  // namespace

// Every accessor on every non-fresh reader: construction check, the positional grid, and every
// cursor operation from the state the reader is born in.
VF_SECTION(derived, 16, 16, 90) {
  size_t nviews = 0;
  for (size_t N : DERIVED_NS) {
    for (int which = 0; which < 2; which++) {
      Derived d(which, N);
      for (const View& v : d.views) {
        nviews++;
        r.note("derived: " + v.how);
        if (r.take()) {
          if (r.wants_desc()) r.desc("construction of " + v.how + ", then every cursor operation from that state");
          auto ops = cursor_ops(v.n);
          r.evals += ops.size();
          r.nontrivial += ops.size() + 1;
          auto* res = c02::run_batch(r, ops.size() + 1, [&](size_t i, CaseResult& c) {
            if (i == 0) check_view(v, c);
            else run_cursor_case(v, ops, {}, (uint32_t)(i - 1), nullptr, c);
          });
          c02::fold(r, res, ops.size() + 1);
        }
        grid_rows(r, v, r.thorough(), !r.thorough());
      }
    }
  }
  if (r.shard == 0) r.counters["readers"] += nviews;
  r.counters["forks"] += c02::stats().forks;
  r.bound = vf::fmt("%zu non-fresh readers over parents of {8,2,0} bytes x {guard-page, exact-heap}: constructed with cursor in {1,3,N-1,N,N+1,2^63,2^64-1}; sub/subx (1- and 2-argument) ending inside the parent; sub-readers of sub-readers at parent offsets 2 and 3; sub-readers of readers whose cursor has moved; truncated; copy / move / copy-assigned / move-assigned over a reader holding other data / self-assigned; std::string- and shared_ptr-backed with and without cursor, sole-owner, default-constructed.  For each: construction (data, size, cursor, remaining, eof), the positional accessors of section `grid` on %s (%s typed pget_*), every cursor operation of the explicit-state alphabet from the birth state", nviews, r.thorough() ? "G(n) x G(n)" : "Gs(n) x Gs(n), Gs(n) = {0,1,2,n-1,n,n+1,2^32,2^63,2^64-n-1,2^64-n,2^64-2,2^64-1}", r.thorough() ? "all 42" : "12 of the 42");
}

// Ordered pairs of positional calls, A then B then A again, all three judged: B on the same reader when
// it has the same size, on a second reader otherwise.  A static or thread_local cache, a reused
// scratch buffer or any other state carried from one call to the next shows as a wrong second or third
// result (larger-then-smaller, smaller-then-larger, throwing-then-succeeding, A-B-A).
VF_SECTION(pos_pairs, 16, 16, 90) {
  Placement p8(0, 8), p2(1, 2);
  View v8 = fresh_view(p8), v2 = fresh_view(p2);
  struct Elem { const View* v; PCall c; };
  std::vector<Elem> el;
  for (const View* v : {&v8, &v2})
    for (auto& c : boundary_calls(v->n)) el.push_back(Elem{v, c});
  for (size_t a = 0; a < el.size(); a++) {
    if (!r.take()) continue;
    const Elem& A = el[a];
    if (r.wants_desc()) r.desc(vf::fmt("A = %s on %s; for every B of %zu boundary calls on the 8- and 2-byte readers: A, B, A", pcall_name(A.c).c_str(), A.v->how.c_str(), el.size()));
    r.evals += 3 * el.size() - 1;
    r.nontrivial += 3 * el.size();
    auto* res = c02::run_batch(r, el.size(), [&](size_t b, CaseResult& c) {
      const Elem& B = el[b];
      StringReader ra = A.v->make();
      StringReader rb2 = B.v->make();
      StringReader& rb = B.v == A.v ? ra : rb2;
      const std::string tag = vf::fmt(" {history: %s on the %zu-byte reader; %s on %s; the first call again}", pcall_name(A.c).c_str(), A.v->n, pcall_name(B.c).c_str(), B.v == A.v ? "the same reader" : "a second reader");
      auto step = [&](const View& v, StringReader& rd, const PCall& pc, const char* which) {
        run_pcall(v, rd, pc, c);
        if (c.code == c02::FAIL) {
          std::string m = std::string(c.msg) + " [" + which + "]" + tag;
          c.set(c.msg, sizeof(c.msg), m);
          return false;
        }
        return true;
      };
      if (!step(*A.v, ra, A.c, "first call")) return;
      if (!step(*B.v, rb, B.c, "second call")) return;
      step(*A.v, ra, A.c, "third call");
    });
    c02::fold(r, res, el.size());
  }
  if (r.shard == 0) r.counters["boundary calls"] += el.size();
  r.counters["forks"] += c02::stats().forks;
  r.bound = vf::fmt("every ordered pair (A, B) of %zu boundary positional calls (every two-argument accessor with whole / empty / tail / over-long / wrapping / beyond slices, 8 typed pget_*, pget_cstr, one-argument sub forms, all()) on an 8-byte (guard-page) and a 2-byte (exact-heap) reader, executed as A, B, A in one process and all judged", el.size());
}

// The same calls in other calling contexts.
VF_SECTION(ctx, 4, 4, 90) {
  for (size_t n : {(size_t)8, (size_t)2}) {
    Placement pl(n == 8 ? 0 : 1, n);
    View v = fresh_view(pl);
    auto calls = boundary_calls(n);
    auto ops = cursor_ops(n);
    for (int ctx = 1; ctx < c02::NCTX; ctx++) {
      r.note(std::string("positional calls") + c02::ctx_name(ctx));
      if (r.take()) {
        if (r.wants_desc()) r.desc(vf::fmt("every boundary positional call on %s%s", v.how.c_str(), c02::ctx_name(ctx)));
        r.evals += calls.size() - 1;
        r.nontrivial += calls.size();
        auto* res = c02::run_batch(r, calls.size(), [&](size_t i, CaseResult& c) {
          StringReader rd = v.make();
          c02::in_context(ctx, [&] { run_pcall(v, rd, calls[i], c); });
          if (c.code == c02::FAIL) { std::string m = std::string(c.msg) + c02::ctx_name(ctx); c.set(c.msg, sizeof(c.msg), m); }
        });
        c02::fold(r, res, calls.size());
      }
      // cursor operations from the fresh state and from the middle of the data
      for (int mid = 0; mid < 2; mid++) {
        r.note(std::string("cursor operations") + c02::ctx_name(ctx));
        if (!r.take()) continue;
        std::vector<uint32_t> hist;
        if (mid)
          for (uint32_t i = 0; i < ops.size(); i++)
            if (ops[i].t == C_GO && ops[i].j == n - 1) hist.push_back(i);
        if (r.wants_desc()) r.desc(vf::fmt("every cursor operation on %s after [%s]%s", v.how.c_str(), hist_name(ops, hist).c_str(), c02::ctx_name(ctx)));
        r.evals += ops.size() - 1;
        r.nontrivial += ops.size();
        auto* res = c02::run_batch(r, ops.size(), [&](size_t i, CaseResult& c) { run_cursor_case(v, ops, hist, (uint32_t)i, nullptr, c, ctx); });
        c02::fold(r, res, ops.size());
      }
    }
  }
  r.counters["forks"] += c02::stats().forks;
  r.bound = "8- and 2-byte readers x {inside a catch handler, in a destructor during stack unwinding, errno == EINTR, errno == ERANGE} x {every boundary positional call; every cursor operation of the explicit-state alphabet from the fresh state and after go(n-1)}";
}
