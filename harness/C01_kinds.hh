// C01_kinds.hh — independent reference encoder/decoder and the table of typed accessors
// ("kinds") shared by the C01 sections.  Nothing here copies the library's algorithm: enc/dec
// work lane by lane on a uint64_t, sign extension is arithmetic.
#pragma once
#include <stdint.h>
#include <string.h>

#include <algorithm>
#include <string>
#include <type_traits>
#include <unordered_set>
#include <vector>

#include "Encoding.hh"
#include "Strings.hh"

namespace c01 {

using namespace phosg;

enum End { BE = 0, LE = 1 };

inline uint64_t maskw(int w) { return w >= 8 ? ~0ull : ((1ull << (8 * w)) - 1); }

// lane i (bits 8i..8i+7) goes to byte i (LE) or byte w-1-i (BE)
inline void enc(uint8_t* out, uint64_t v, int w, End e) {
  for (int i = 0; i < w; i++) {
    uint8_t lane = (uint8_t)((v >> (8 * i)) & 0xFF);
    out[e == LE ? i : (w - 1 - i)] = lane;
  }
}
inline uint64_t dec(const uint8_t* in, int w, End e) {
  uint64_t v = 0;
  for (int i = 0; i < w; i++) {
    uint64_t b = in[e == LE ? i : (w - 1 - i)];
    v |= b << (8 * i);
  }
  return v;
}
// two's complement value of the low w bytes, as a 64-bit pattern (v - 2^(8w) when the top bit is set)
inline uint64_t sext(uint64_t v, int w) {
  v &= maskw(w);
  if (w < 8 && ((v >> (8 * w - 1)) & 1)) return v - (1ull << (8 * w));
  return v;
}

template <class T>
inline T from_bits(uint64_t v) {
  if constexpr (std::is_same_v<T, float>) {
    uint32_t b = (uint32_t)v;
    float f;
    memcpy(&f, &b, 4);
    return f;
  } else if constexpr (std::is_same_v<T, double>) {
    double d;
    memcpy(&d, &v, 8);
    return d;
  } else {
    return (T)v;
  }
}
template <class T>
inline uint64_t to_bits(T x) {
  if constexpr (std::is_same_v<T, float>) {
    uint32_t b;
    memcpy(&b, &x, 4);
    return b;
  } else if constexpr (std::is_same_v<T, double>) {
    uint64_t b;
    memcpy(&b, &x, 8);
    return b;
  } else if constexpr (std::is_signed_v<T>) {
    return (uint64_t)(int64_t)x;
  } else {
    return (uint64_t)x;
  }
}

struct Kind {
  const char* name;  // suffix as in the accessor names: "u16b", "f64r", "s48l"
  int w;             // encoded width in bytes
  End e;             // byte order of the encoding on this (little-endian) host
  char cls;          // 'u' unsigned, 's' signed (value = sext), 'f' float (bit pattern)
  bool readonly;     // no put_/pput_ accessor exists (24/48-bit): the harness writes enc() bytes
  void (*sw_put)(StringWriter&, uint64_t);
  void (*sw_pput)(StringWriter&, size_t, uint64_t);  // nullptr for readonly kinds
  void (*bw_put)(BufferWriter&, uint64_t);
  void (*bw_pput)(BufferWriter&, size_t, uint64_t);
  uint64_t (*get)(StringReader&, bool);
  uint64_t (*pget)(const StringReader&, size_t);

  uint64_t expect(uint64_t v) const { return cls == 's' ? sext(v, w) : (v & maskw(w)); }
};

#define C01_KIND(NAME, W, E, CLS, T, PUT, PPUT, GETEXPR, PGETEXPR)                                   \
  Kind {                                                                                             \
    #NAME, W, E, CLS, false,                                                                         \
        [](StringWriter& w, uint64_t v) { w.PUT(from_bits<T>(v)); },                                 \
        [](StringWriter& w, size_t o, uint64_t v) { w.PPUT(o, from_bits<T>(v)); },                  \
        [](BufferWriter& w, uint64_t v) { w.PUT(from_bits<T>(v)); },                                 \
        [](BufferWriter& w, size_t o, uint64_t v) { w.PPUT(o, from_bits<T>(v)); },                  \
        [](StringReader& r, bool a) -> uint64_t { return to_bits<T>((T)(GETEXPR)); },                \
        [](const StringReader& r, size_t o) -> uint64_t { return to_bits<T>((T)(PGETEXPR)); }        \
  }
// b/l accessors exist by name on both sides
#define C01_BL(NAME, W, E, CLS, T) C01_KIND(NAME, W, E, CLS, T, put_##NAME, pput_##NAME, r.get_##NAME(a), r.pget_##NAME(o))
// native and r forms: writers have names, the matching reader is the get<T>/pget<T> template
#define C01_NR(NAME, W, E, CLS, T, WRAP) C01_KIND(NAME, W, E, CLS, T, put_##NAME, pput_##NAME, r.get<WRAP>(a), r.pget<WRAP>(o))
// read-only 24/48-bit getters; the "writer" is the reference encoder + write()/pwrite()
#define C01_RO(NAME, W, E, CLS, T)                                                                   \
  Kind {                                                                                             \
    #NAME, W, E, CLS, true,                                                                          \
        [](StringWriter& w, uint64_t v) { uint8_t b[8]; enc(b, v, W, E); w.write(b, W); },           \
        nullptr,                                                                                     \
        [](BufferWriter& w, uint64_t v) { uint8_t b[8]; enc(b, v, W, E); w.write(b, W); },           \
        [](BufferWriter& w, size_t o, uint64_t v) { uint8_t b[8]; enc(b, v, W, E); w.pwrite(o, b, W); }, \
        [](StringReader& r, bool a) -> uint64_t { return to_bits<T>(r.get_##NAME(a)); },             \
        [](const StringReader& r, size_t o) -> uint64_t { return to_bits<T>(r.pget_##NAME(o)); }     \
  }

inline const std::vector<Kind>& kinds() {
  static const std::vector<Kind> k = {
      C01_BL(u8, 1, LE, 'u', uint8_t),
      C01_BL(s8, 1, LE, 's', int8_t),

      C01_NR(u16, 2, LE, 'u', uint16_t, uint16_t),
      C01_NR(u16r, 2, BE, 'u', uint16_t, re_uint16_t),
      C01_BL(u16b, 2, BE, 'u', uint16_t),
      C01_BL(u16l, 2, LE, 'u', uint16_t),
      C01_NR(s16, 2, LE, 's', int16_t, int16_t),
      C01_NR(s16r, 2, BE, 's', int16_t, re_int16_t),
      C01_BL(s16b, 2, BE, 's', int16_t),
      C01_BL(s16l, 2, LE, 's', int16_t),

      C01_NR(u32, 4, LE, 'u', uint32_t, uint32_t),
      C01_NR(u32r, 4, BE, 'u', uint32_t, re_uint32_t),
      C01_BL(u32b, 4, BE, 'u', uint32_t),
      C01_BL(u32l, 4, LE, 'u', uint32_t),
      C01_NR(s32, 4, LE, 's', int32_t, int32_t),
      C01_NR(s32r, 4, BE, 's', int32_t, re_int32_t),
      C01_BL(s32b, 4, BE, 's', int32_t),
      C01_BL(s32l, 4, LE, 's', int32_t),
      C01_NR(f32, 4, LE, 'f', float, float),
      C01_NR(f32r, 4, BE, 'f', float, re_float),
      C01_BL(f32b, 4, BE, 'f', float),
      C01_BL(f32l, 4, LE, 'f', float),

      C01_NR(u64, 8, LE, 'u', uint64_t, uint64_t),
      C01_NR(u64r, 8, BE, 'u', uint64_t, re_uint64_t),
      C01_BL(u64b, 8, BE, 'u', uint64_t),
      C01_BL(u64l, 8, LE, 'u', uint64_t),
      C01_NR(s64, 8, LE, 's', int64_t, int64_t),
      C01_NR(s64r, 8, BE, 's', int64_t, re_int64_t),
      C01_BL(s64b, 8, BE, 's', int64_t),
      C01_BL(s64l, 8, LE, 's', int64_t),
      C01_NR(f64, 8, LE, 'f', double, double),
      C01_NR(f64r, 8, BE, 'f', double, re_double),
      C01_BL(f64b, 8, BE, 'f', double),
      C01_BL(f64l, 8, LE, 'f', double),

      C01_RO(u24b, 3, BE, 'u', uint32_t),
      C01_RO(u24l, 3, LE, 'u', uint32_t),
      C01_RO(s24b, 3, BE, 's', int32_t),
      C01_RO(s24l, 3, LE, 's', int32_t),
      C01_RO(u48b, 6, BE, 'u', uint64_t),
      C01_RO(u48l, 6, LE, 'u', uint64_t),
      C01_RO(s48b, 6, BE, 's', int64_t),
      C01_RO(s48l, 6, LE, 's', int64_t),
  };
  return k;
}

inline const Kind* kind(const char* name) {
  for (auto& k : kinds())
    if (!strcmp(k.name, name)) return &k;
  fprintf(stderr, "no kind %s\n", name);
  abort();
}

inline std::vector<const Kind*> kinds_of_width(int w) {
  std::vector<const Kind*> v;
  for (auto& k : kinds())
    if (k.w == w) v.push_back(&k);
  return v;
}

// ---- value sets -----------------------------------------------------------------------------
inline const std::vector<uint8_t>& L5() {
  static const std::vector<uint8_t> v = {0x00, 0x01, 0x7F, 0x80, 0xFF};
  return v;
}
inline const std::vector<uint8_t>& L9() {
  static const std::vector<uint8_t> v = {0x00, 0x01, 0x7F, 0x80, 0xFF, 0x02, 0x81, 0xFE, 0xA5};
  return v;
}
// all-distinct lanes and complement, walking one / walking zero over 8*w bits
inline std::vector<uint64_t> structured_values(int w) {
  std::vector<uint64_t> v;
  uint64_t ad = 0x0102030405060708ull >> (64 - 8 * w);
  v.push_back(ad);
  v.push_back(~ad & maskw(w));
  for (int i = 0; i < 8 * w; i++) {
    v.push_back(1ull << i);
    v.push_back(~(1ull << i) & maskw(w));
  }
  return v;
}
// every combination of lane values from `lanes` in each of the w byte lanes
template <class F>
inline void lane_product(const std::vector<uint8_t>& lanes, int w, F&& f) {
  std::vector<size_t> ix(w, 0);
  for (;;) {
    uint64_t v = 0;
    for (int i = 0; i < w; i++) v |= (uint64_t)lanes[ix[i]] << (8 * i);
    f(v);
    int i = 0;
    for (; i < w; i++) {
      if (++ix[i] < lanes.size()) break;
      ix[i] = 0;
    }
    if (i == w) break;
  }
}
// 2^k-1, 2^k, 2^k+1 and their negatives for every k below the width (two's complement, masked)
inline std::vector<uint64_t> boundary_values(int w) {
  std::vector<uint64_t> v;
  for (int k = 0; k < 8 * w; k++) {
    uint64_t p = 1ull << k;
    for (uint64_t x : {p - 1, p, p + 1}) {
      v.push_back(x & maskw(w));
      v.push_back((0 - x) & maskw(w));
    }
  }
  return v;
}
// removes repeated values, keeping the first occurrence (cases stay pairwise distinct)
inline void dedupe(std::vector<uint64_t>& vals) {
  std::unordered_set<uint64_t> seen;
  seen.reserve(vals.size() * 2);
  size_t o = 0;
  for (uint64_t x : vals)
    if (seen.insert(x).second) vals[o++] = x;
  vals.resize(o);
}
inline std::vector<uint64_t> float_specials(int w) {
  if (w == 4)
    return {0x00000000u, 0x80000000u, 0x7F800000u, 0xFF800000u, 0x7FC00000u, 0x7FC00001u, 0x7F800001u, 0xFFBFFFFFu, 0xFFFFFFFFu,
        0x00800000u, 0x7F7FFFFFu, 0x00000001u, 0x007FFFFFu, 0x3F800000u, 0xBFC00000u};
  return {0x0000000000000000ull, 0x8000000000000000ull, 0x7FF0000000000000ull, 0xFFF0000000000000ull, 0x7FF8000000000000ull,
      0x7FF8000000000001ull, 0x7FF0000000000001ull, 0xFFF7FFFFFFFFFFFFull, 0xFFFFFFFFFFFFFFFFull, 0x0010000000000000ull,
      0x7FEFFFFFFFFFFFFFull, 0x0000000000000001ull, 0x000FFFFFFFFFFFFFull, 0x3FF0000000000000ull, 0xBFF8000000000000ull};
}

inline std::string hexv(uint64_t v, int w) {
  char b[32];
  snprintf(b, sizeof(b), "0x%0*llX", 2 * w, (unsigned long long)(v & maskw(w)));
  return b;
}
inline std::string hexb(const void* p, size_t n) {
  std::string s;
  char b[4];
  for (size_t i = 0; i < n; i++) {
    snprintf(b, sizeof(b), "%02X", ((const uint8_t*)p)[i]);
    s += b;
  }
  return s.empty() ? "(empty)" : s;
}

}  // namespace c01
