// C19 (part): expect_raises<E>(fn) — expected type x behaviour of fn x kind of callable x execution context.
// Oracle: succeeds iff fn throws an object whose type is E or publicly and unambiguously derives from E
// (std::is_same / std::is_base_of, i.e. the statement's "E or derives from it"); otherwise the helper throws
// expectation_failed carrying the CALL SITE's file and line and a message; nothing else may escape.
#include "C19_common.hh"

using namespace phosg;
using namespace c19;

namespace {

struct Derived1 : std::runtime_error {
  Derived1() : std::runtime_error("d1") {}
};
struct Derived2 : Derived1 {};
struct SubFailure : expectation_failed {  // a test framework's own refinement of the failure type
  SubFailure() : expectation_failed("derived failure", "nowhere.cc", 7) {}
};
struct Mixin {  // a non-std second base
  int tag = 3;
};
struct Multi : std::runtime_error, Mixin {  // multiple inheritance, std base first
  Multi() : std::runtime_error("multi") {}
};
struct Multi2 : Mixin, std::logic_error {  // multiple inheritance, std base second (non-zero base offset)
  Multi2() : std::logic_error("multi2") {}
};
struct V1 : virtual std::runtime_error {
  V1() : std::runtime_error("v1") {}
};
struct V2 : virtual std::runtime_error {
  V2() : std::runtime_error("v2") {}
};
struct Diamond : V1, V2 {  // one shared virtual std::runtime_error base
  Diamond() : std::runtime_error("diamond") {}
};
struct Ambiguous : std::runtime_error, std::logic_error {  // two std::exception bases: catch (std::exception&) cannot bind
  Ambiguous() : std::runtime_error("amb-r"), std::logic_error("amb-l") {}
};
struct Hidden : private std::runtime_error {  // inaccessible base: handlers for the base do not match
  Hidden() : std::runtime_error("hidden") {}
};
struct NonStd {
  int x = 1;
};
typedef std::exception AnyStdException;   // E given as a typedef: must select the std::exception specialisation
using RuntimeAlias = std::runtime_error;

uint64_t g_inner_line = 0;
void inner_failing_expectation() {
  // clang-format off
  g_inner_line = __LINE__; expect_eq(1, 2);
  // clang-format on
}
void inner_raises_fails() {
  // clang-format off
  g_inner_line = __LINE__; expect_raises(std::runtime_error, [] {});
  // clang-format on
}

// X(enumerator, thrown type (void = nothing thrown), description, statement)
#define C19_BEHAVIOURS(X)                                                                                              \
  X(RETURNS, void, "returns", return )                                                                                 \
  X(RETURNS_AFTER_INNER_OK, void, "returns after an inner expect_raises that succeeded", { expect_raises(std::logic_error, [] { throw std::out_of_range("x"); }); return; }) \
  X(T_EXC, std::exception, "throws std::exception", throw std::exception())                                             \
  X(T_LOGIC, std::logic_error, "throws logic_error", throw std::logic_error("l"))                                        \
  X(T_INVARG, std::invalid_argument, "throws invalid_argument", throw std::invalid_argument("i"))                        \
  X(T_OOR, std::out_of_range, "throws out_of_range", throw std::out_of_range("o 100% %s %n"))                            \
  X(T_RUNTIME, std::runtime_error, "throws runtime_error", throw std::runtime_error("r"))                                \
  X(T_RUNTIME_LONG, std::runtime_error, "throws runtime_error with a 5000-character what()", throw std::runtime_error(std::string(5000, 'w'))) \
  X(T_RANGE, std::range_error, "throws range_error", throw std::range_error("g"))                                        \
  X(T_SYSTEM, std::system_error, "throws system_error", throw std::system_error(EIO, std::generic_category(), "s"))      \
  X(T_BADALLOC, std::bad_alloc, "throws bad_alloc", throw std::bad_alloc())                                              \
  X(T_BADCALL, std::bad_function_call, "calls an empty std::function (bad_function_call)", { std::function<void()> e; e(); }) \
  X(T_EXPFAIL, expectation_failed, "throws expectation_failed", throw expectation_failed("inner", "inner.cc", 7))        \
  X(T_INNER_EXPECT, expectation_failed, "fails an inner expect_eq", inner_failing_expectation())                         \
  X(T_INNER_RAISES, expectation_failed, "fails an inner expect_raises", inner_raises_fails())                            \
  X(T_SUBFAIL, SubFailure, "throws a class derived from expectation_failed", throw SubFailure())                          \
  X(T_D1, Derived1, "throws Derived1", throw Derived1())                                                                 \
  X(T_D2, Derived2, "throws Derived2", throw Derived2())                                                                 \
  X(T_MULTI, Multi, "throws Multi (runtime_error + Mixin)", throw Multi())                                               \
  X(T_MULTI2, Multi2, "throws Multi2 (Mixin + logic_error)", throw Multi2())                                             \
  X(T_DIAMOND, Diamond, "throws Diamond (virtual runtime_error)", throw Diamond())                                       \
  X(T_AMBIG, Ambiguous, "throws Ambiguous (runtime_error + logic_error)", throw Ambiguous())                             \
  X(T_HIDDEN, Hidden, "throws Hidden (private runtime_error)", throw Hidden())                                           \
  X(T_MIXIN, Mixin, "throws Mixin (non-std class)", throw Mixin())                                                       \
  X(T_NONSTD, NonStd, "throws NonStd (non-std class)", throw NonStd())                                                   \
  X(T_INT, int, "throws int", throw 42)                                                                                  \
  X(T_UINT, unsigned, "throws unsigned", throw 42u)                                                                      \
  X(T_CSTR, const char*, "throws const char*", throw(const char*) "text")                                                \
  X(T_STRING, std::string, "throws std::string", throw std::string("text"))

enum Behaviour {
#define X(EN, T, D, S) EN,
  C19_BEHAVIOURS(X)
#undef X
      NBEH
};
const char* beh_name[] = {
#define X(EN, T, D, S) D,
    C19_BEHAVIOURS(X)
#undef X
};

void behave(int b) {
  switch (b) {
#define X(EN, T, D, S) \
  case EN: S; break;
    C19_BEHAVIOURS(X)
#undef X
  }
}

// Reference: 1 = must succeed, 0 = must fail with expectation_failed, -1 = the statement does not settle it
// (thrown type derives from E only ambiguously or inaccessibly: "derives from it" holds, but no C++ handler for E
// can bind - executed, not compared).
template <class E, class X>
constexpr int matches() {
  if constexpr (std::is_void_v<X>) return 0;
  else if constexpr (std::is_same_v<std::remove_cv_t<E>, X>) return 1;
  else if constexpr (std::is_class_v<E> && std::is_class_v<X>) {
    if constexpr (!std::is_base_of_v<E, X>) return 0;
    else return std::is_convertible_v<X*, E*> ? 1 : -1;
  } else return 0;
}
template <class E>
int should_succeed(int b) {
  switch (b) {
#define X(EN, T, D, S) \
  case EN: return matches<E, T>();
    C19_BEHAVIOURS(X)
#undef X
  }
  return 0;
}

// kinds of callable handed to expect_raises
enum Kind { K_LAMBDA_CAPTURE, K_LAMBDA_PLAIN, K_FUNCTION_POINTER, K_STD_FUNCTION, K_FUNCTOR_INT, K_LAMBDA_STRING, K_DIRECT_FN, NKIND };
const char* kind_name[] = {"capturing lambda", "captureless lambda", "function pointer", "std::function lvalue", "functor returning int", "lambda returning std::string", "expect_raises_fn<E>(file, line, fn) called directly"};

thread_local int g_beh = 0;  // for the callables that cannot capture
int g_calls = 0;
void behave_global() { g_calls++; behave(g_beh); }
struct FunctorInt {
  int b;
  int* calls;
  int operator()() const { ++*calls; behave(b); return 7; }
};

// one expect_raises call with expected type E (the only part compiled per E)
template <class E>
Res call_raises(int kind, int b, Site& site, int& calls) {
  site.file = __FILE__;
  g_beh = b;  // thread_local: set on the thread that makes the call
  return probe([&] {
    // clang-format off
    switch (kind) {
      case K_LAMBDA_CAPTURE: site.line = __LINE__; expect_raises(E, [&]() { calls++; behave(b); }); break;
      case K_LAMBDA_PLAIN: site.line = __LINE__; expect_raises(E, []() { g_calls++; behave(g_beh); }); break;
      case K_FUNCTION_POINTER: site.line = __LINE__; expect_raises(E, &behave_global); break;
      case K_STD_FUNCTION: { std::function<void()> f = [&calls, b]() { calls++; behave(b); }; site.line = __LINE__; expect_raises(E, f); break; }
      case K_FUNCTOR_INT: { FunctorInt f{b, &calls}; site.line = __LINE__; expect_raises(E, f); break; }
      case K_LAMBDA_STRING: site.line = __LINE__; expect_raises(E, [&]() -> std::string { calls++; behave(b); return std::string(40, 'r'); }); break;
      case K_DIRECT_FN: site.file = "dir with space/direct 100%.cc"; site.line = 0x100000001ull; expect_raises_fn<E>("dir with space/direct 100%.cc", 0x100000001ull, [&]() { calls++; behave(b); }); break;
    }
    // clang-format on
  });
}

struct Expected {
  const char* name;
  Res (*call)(int kind, int b, Site& site, int& calls);
  int (*should_succeed)(int b);
  bool specialised;  // E is std::exception: the explicit specialisation in UnitTest.cc
};

void check_raises(vf::Run& r, const Expected& E, const std::vector<int>& ctxs) {
  const char* ename = E.name;
  r.note(std::string("expect_raises<") + ename + ">");
  // keys name the template that ran (two bodies of code), the expected type is in the description
  std::string k = E.specialised ? "expect_raises<std::exception>" : "expect_raises<E>";
  for (int ctx : ctxs) {
    for (int kind = 0; kind < NKIND; kind++) {
      for (int b = 0; b < NBEH; b++) {
        if (!r.take()) continue;
        Desc d0 = [&] { return vf::fmt("expect_raises<%s>(%s that %s)", ename, kind_name[kind], beh_name[b]); };
        if (r.wants_desc()) r.desc(d0() + " [" + ctx_name(ctx) + "]");
        int want = E.should_succeed(b);
        Site site;
        int calls = 0;
        g_calls = 0;
        g_inner_line = 0;
        Res res = run_ctx(ctx, r.ambient_errno(), [&] { return E.call(kind, b, site, calls); });
        calls += g_calls;
        r.nontriv();
        Desc d = [&] {
          std::string obs = res.kind == Res::SILENT ? "succeeds" : res.kind == Res::OTHER ? "lets escape " + res.other : vf::fmt("expectation_failed from %s:%llu", res.file.c_str(), (unsigned long long)res.line);
          return d0() + vf::fmt(" [%s]: expected to %s, observed: %s", ctx_name(ctx), want > 0 ? "succeed" : want == 0 ? "fail with expectation_failed" : "(not settled)", obs.c_str());
        };
        if (!judge_ctx(r, ctx, res, d)) continue;
        if (calls != 1) {
          r.fail(k + ":fn-call-count", [&] { return d() + vf::fmt("; fn was called %d times", calls); });
          continue;
        }
        // the callee's own expectation_failed escaping unconverted is distinguished from the helper's failure
        bool callee_failure_escaped = res.kind == Res::FAILED && !res.file_dangling && !res.file_null &&
            ((b == T_EXPFAIL && res.file == "inner.cc") || (b == T_SUBFAIL && res.file == "nowhere.cc") || ((b == T_INNER_EXPECT || b == T_INNER_RAISES) && res.file == __FILE__ && res.line == g_inner_line));
        if (want < 0) {
          r.ok("not-settled (ambiguous or inaccessible base): executed only");
          continue;
        }
        if (want && res.kind != Res::SILENT) r.fail(k + (callee_failure_escaped ? ":rethrows-matching-callee-failure" : ":rejects-matching"), d);
        else if (!want && res.kind == Res::SILENT) r.fail(k + (b <= RETURNS_AFTER_INNER_OK ? ":accepts-return" : ":accepts-wrong-type"), d);
        else if (!want && (res.kind == Res::OTHER || callee_failure_escaped)) r.fail(k + ":lets-callee-exception-escape", d);
        else if (!want) {
          if (judge_payload(r, k, res, site, {}, nullptr, d)) r.ok(std::string(ctx_tag(ctx)) + ": fails-on-mismatch");
        } else r.ok(std::string(ctx_tag(ctx)) + ": succeeds-on-match");
      }
    }
  }
}

#define C19_EXPECTED_TYPES(X) \
  X(std::exception) X(std::logic_error) X(std::invalid_argument) X(std::out_of_range) X(std::runtime_error) X(std::range_error) X(std::system_error) \
  X(std::bad_alloc) X(std::bad_function_call) X(expectation_failed) X(SubFailure) X(Derived1) X(Derived2) X(AnyStdException) X(RuntimeAlias) \
  X(Mixin) X(Multi) X(Multi2) X(V1) X(Diamond) X(NonStd) X(int) X(const char*) X(std::string)

}  // namespace

VF_SECTION(raises, 8, 16, 120) {
  const auto& C = all_ctx();
#define X(E) check_raises(r, Expected{#E, &call_raises<E>, &should_succeed<E>, std::is_same_v<E, std::exception>}, C);
  C19_EXPECTED_TYPES(X)
#undef X
  r.bound = "24 expected types (std::exception [explicit specialisation, also through a typedef], logic_error, invalid_argument, out_of_range, runtime_error [also through an alias], range_error, system_error, bad_alloc, bad_function_call, expectation_failed, a class derived from it, Derived1/2, multiple- and virtual-inheritance classes, a non-std base, non-class types int / const char* / std::string) x 29 behaviours of fn (returns, returns after an inner expect_raises, throws each std type, fails an inner expect_eq / expect_raises, throws multiply/virtually/ambiguously/privately derived classes, throws int / unsigned / const char* / std::string / plain classes) x 7 kinds of callable (capturing and captureless lambda, function pointer, std::function, functors returning int / std::string, expect_raises_fn called directly with a 2^32+1 line) x 10 execution contexts";
}
