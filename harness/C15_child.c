/* vchild — scripted child process for the C15 harness (E-PROC).
 * Inherits a command pipe (fd 200, read) and an acknowledgement pipe (fd 201, write) from the
 * harness and performs exactly one step per command, so that the harness decides when the child
 * moves relative to the parent's system calls.  stdin/stdout/stderr are the pipes created by the
 * phosg code under test; they are switched to non-blocking so that a step that cannot make
 * progress reports "would block" instead of hanging. */
#define _GNU_SOURCE
#include <errno.h>
#include <fcntl.h>
#include <signal.h>
#include <stdint.h>
#include <stdlib.h>
#include <string.h>
#include <unistd.h>

#define CMD_FD 200
#define ACK_FD 201

struct cmd { int32_t op; int32_t arg; };
struct ack { int64_t result; uint64_t hash; int64_t total; };

static uint64_t in_hash = 1469598103934665603ull;
static int64_t in_total = 0;
static int64_t out_total[3] = {0, 0, 0};
static char buf[1 << 16];

static unsigned char pattern(int stream, int64_t off) { return (unsigned char)((off * 31 + stream * 7 + (off >> 8)) & 0xFF); }

static void set_nonblock(int fd) {
  int fl = fcntl(fd, F_GETFL, 0);
  if (fl >= 0) fcntl(fd, F_SETFL, fl | O_NONBLOCK);
}

static void reply(int64_t result, uint64_t hash, int64_t total) {
  struct ack a = {result, hash, total};
  if (write(ACK_FD, &a, sizeof(a)) != (ssize_t)sizeof(a)) _exit(97);
}

int main(void) {
  int start_mask = 0;
  for (int fd = 0; fd < 3; fd++) if (fcntl(fd, F_GETFD) != -1) start_mask |= 1 << fd;
  signal(SIGPIPE, SIG_IGN); /* a write to a closed pipe is reported, not fatal */
  set_nonblock(0);
  set_nonblock(1);
  set_nonblock(2);
  for (;;) {
    struct cmd c;
    ssize_t r = read(CMD_FD, &c, sizeof(c));
    if (r == 0) _exit(96); /* harness went away */
    if (r != (ssize_t)sizeof(c)) { if (r < 0 && errno == EINTR) continue; _exit(95); }
    switch (c.op) {
      case 'R': {
        size_t want = (size_t)c.arg < sizeof(buf) ? (size_t)c.arg : sizeof(buf);
        ssize_t n = read(0, buf, want);
        if (n > 0) {
          for (ssize_t i = 0; i < n; i++) in_hash = (in_hash ^ (unsigned char)buf[i]) * 1099511628211ull;
          in_total += n;
          reply(n, in_hash, in_total);
        } else if (n == 0) reply(0, in_hash, in_total);
        else reply((errno == EAGAIN || errno == EWOULDBLOCK) ? -1 : errno == EBADF ? -3 : -2, in_hash, in_total);
        break;
      }
      case '1':
      case '2': {
        int s = c.op - '0';
        size_t want = (size_t)c.arg < sizeof(buf) ? (size_t)c.arg : sizeof(buf);
        for (size_t i = 0; i < want; i++) buf[i] = (char)pattern(s, out_total[s] + (int64_t)i);
        ssize_t n = write(s, buf, want);
        if (n >= 0) { out_total[s] += n; reply(n, 0, out_total[s]); }
        else reply((errno == EAGAIN || errno == EWOULDBLOCK) ? -1 : errno == EBADF ? -3 : -2, 0, out_total[s]);
        break;
      }
      case 'C': close(c.arg); reply(0, 0, 0); break;
      case 'F': reply(start_mask, 0, 0); break; /* which of descriptors 0/1/2 were open when this program started */
      case 'X': reply(0, in_hash, in_total); _exit(c.arg);
      case 'K': reply(0, in_hash, in_total); signal(c.arg, SIG_DFL); kill(getpid(), c.arg); for (;;) pause();
      case 'P': reply(0, in_hash, in_total); break; /* time passes: the child lingers without touching its streams */
      case 'I': signal(c.arg, SIG_IGN); reply(0, in_hash, in_total); break; /* from now on the child ignores this signal */
      default: _exit(94);
    }
  }
}
