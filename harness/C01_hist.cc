// C01 (part): operation histories over StringWriter / BufferWriter.  See C01_hist.hh.
#include "C01_hist.hh"

VF_SECTION(hist_sw, 16, 16, 180) {
  auto alpha = build_alphabet(r.thorough());
  size_t depth = r.thorough() ? 4 : 3;
  r.note("StringWriter histories");
  enumerate_histories(r, alpha, depth, [&](const std::vector<uint32_t>& seq) { history_sw(r, alpha, seq); });
  r.bound = vf::fmt("all operation sequences of length 1..%zu over %zu StringWriter operations (put_K(v), write(block), write(cstr), pput_K(off in {0,1,size-1,size,size+3}, v), extend_by(2)); un-merged, every history replayed on a fresh writer", depth, alpha.size());
}

VF_SECTION(hist_bw, 16, 16, 180) {
  auto alpha = build_alphabet(false);
  size_t depth = r.thorough() ? 4 : 3;
  r.note("BufferWriter histories");
  enumerate_histories(r, alpha, depth, [&](const std::vector<uint32_t>& seq) { history_bw(r, alpha, seq); });
  r.bound = vf::fmt("all operation sequences of length 1..%zu over %zu BufferWriter operations on an exact-size caller buffer", depth, alpha.size());
}

// round 2: non-initial writer states, template forms, far positional writes, both pwrite overloads
VF_SECTION(hist2_sw, 16, 16, 180) {
  auto alpha = build_alphabet2(false, r.thorough());
  size_t depth = r.thorough() ? 5 : 4;
  r.note("StringWriter state histories");
  enumerate_histories(r, alpha, depth, [&](const std::vector<uint32_t>& seq) { history_sw(r, alpha, seq); });
  r.bound = vf::fmt("all operation sequences of length 1..%zu over %zu StringWriter operations including reset(), str() moved out + reset(), copy-/move-assignment over a non-empty writer, extend_to/extend_by with explicit and defaulted fill (also by 0), put<T>/pput<T> with packed structs and endian wrappers, a 17-byte block (leaves the small-string buffer), pput 300 bytes past the end, straddling the end and exactly at the end", depth, alpha.size());
}

VF_SECTION(hist2_bw, 16, 16, 180) {
  auto alpha = build_alphabet2(true, r.thorough());
  size_t depth = 4;
  r.note("BufferWriter state histories");
  enumerate_histories(r, alpha, depth, [&](const std::vector<uint32_t>& seq) { history_bw(r, alpha, seq); });
  r.bound = vf::fmt("all operation sequences of length 1..%zu over %zu BufferWriter operations on an exact-size (exactly full at the furthest write) caller buffer including pwrite(off, std::string) / pwrite(off, ptr, len) at 0, 1, cursor-1, cursor, cursor+3, put<T>/pput<T> with packed structs and endian wrappers, and a second BufferWriter constructed over the buffer that already holds data", depth, alpha.size());
}
