// C09, variant "preempt" — concurrent format_data_string / parse_data_string / format_data calls (harness/preempt_pure.hh).
#include "preempt_pure.hh"

#include "Strings.hh"

using namespace phosg;

static std::vector<pp::Call> make_calls() {
  std::vector<pp::Call> calls;
  auto add = [&](const char* name, const char* group, std::function<std::string()> f) { calls.push_back({name, group, pp::guarded(f)}); };
  add("format_data_string(\"ab\\\\\\x00\\xFF\")", "format_data_string", [] { return format_data_string(std::string("ab\\\x00\xFF", 5)); });
  add("format_data_string(\"\\x01\\x02\", mask FF00)", "format_data_string", [] { std::string m("\xFF\x00", 2); return format_data_string(std::string("\x01\x02"), &m); });
  add("format_data_string(\"hello\", HEX_ONLY)", "format_data_string", [] { return format_data_string(std::string("hello"), nullptr, FormatDataFlags::HEX_ONLY); });
  add("parse_data_string(\"0102 \\\"ab\\\" #10\")", "parse_data_string", [] { return parse_data_string(std::string("0102 \"ab\" #10")); });
  add("parse_data_string(\"$ ##258 'x' %1.5\")", "parse_data_string", [] { return parse_data_string(std::string("$ ##258 'x' %1.5")); });
  add("parse_data_string(\"AB ?? 01 /*c*/ 02\", mask)", "parse_data_string", [] { std::string m; std::string d = parse_data_string(std::string("AB ?? 01 /*c*/ 02"), &m); return d + "|" + m; });
  add("parse_data_string(\"zz\") (rejected)", "parse_data_string", [] { return parse_data_string(std::string("zz")); });
  add("format_data(20 bytes, addr 0x10, ASCII)", "format_data", [] { return format_data(std::string("0123456789abcdefghij"), 0x10, nullptr, PrintDataFlags::PRINT_ASCII); });
  add("format_data(17 zero bytes, COLLAPSE)", "format_data", [] { return format_data(std::string(17, '\0'), 0, nullptr, PrintDataFlags::COLLAPSE_ZERO_LINES); });
  add("format_data(8 bytes vs prev, colour)", "format_data", [] { std::string p = "01234567"; return format_data(std::string("01x34y67"), 0, p.data(), PrintDataFlags::USE_COLOR | PrintDataFlags::PRINT_ASCII); });
  add("format_size(1536)", "format_size", [] { return format_size(1536); });
  add("parse_size(\"3.5 KB\")", "parse_size", [] { return std::to_string(parse_size("3.5 KB")); });
  return calls;
}

VF_SECTION(concurrent_pairs, 16, 16, 300) {
  std::vector<pp::Call> calls = make_calls();
  pp::run_pairs(r, calls, r.thorough() ? 400 : 150, r.thorough() ? 150 : 0);
  r.bound = "every unordered pair (and every call with itself) of 12 calls of format_data_string / parse_data_string / format_data / format_size / parse_size run concurrently: every schedule with <= 2 preemptions for same-function pairs with <= 150 (thorough 400) scheduling points per call (thorough: cross pairs <= 150 too), <= 1 preemption otherwise; basic-block granularity of Strings.cc";
}

// First calls: each call with itself and with the next call of the same function (thorough: every same-function pair),
// each schedule in a freshly forked process.
VF_SECTION(concurrent_cold, 16, 16, 600) {
  std::vector<pp::Call> calls = make_calls();
  pp::run_pairs_cold(r, calls, r.thorough());
  r.bound = "first calls: every call above with itself and with the next call of the same function (thorough: every same-function pair), each schedule in a freshly forked process that has never called the library: every schedule with <= 1 preemption at basic-block granularity";
}
VF_MAIN()
