// C13_pairs.hh — coordinates at and around the limits of the coordinate type.  KDTree only compares
// coordinates, and every comparison has one operand from a stored point and one from a query (or from
// another stored point): so every ORDERED PAIR (a,b) of a boundary alphabet of the coordinate type is
// turned into a tree whose points are the tuples over {a,b}, built in several orders, observed with
// every probe point and every box over {a,b}, then partly erased, observed again, and emptied through
// erase_advance.  Anything that computes with coordinates (differences, midpoints, conversions to a
// narrower or a floating type, signed/unsigned confusion) shows up as a disagreement with the linear scan.
#pragma once
#include <algorithm>

#include "C13_gen.hh"

namespace c13 {

template <class T>
inline const char* tname();
#define C13_TN(T) template <> inline const char* tname<T>() { return #T; }
C13_TN(int8_t) C13_TN(uint8_t) C13_TN(int16_t) C13_TN(uint16_t) C13_TN(int32_t) C13_TN(uint32_t) C13_TN(int64_t) C13_TN(uint64_t) C13_TN(float) C13_TN(double)
#undef C13_TN

// 2^k-1, 2^k, 2^k+1 for the exponents in `ks` (all exponents up to the width when `ks` is empty), their
// negatives for signed types, 0 and the four values at the limits
template <class T>
std::vector<T> all_values() {  // 8-bit types
  std::vector<T> out;
  for (int v = (int)std::numeric_limits<T>::min(); v <= (int)std::numeric_limits<T>::max(); v++) out.push_back((T)v);
  return out;
}
template <class T>
std::vector<T> boundary_alphabet(const std::vector<int>& ks = {}) {
  std::vector<T> out;
  if constexpr (std::is_floating_point_v<T>) {
    using L = std::numeric_limits<T>;
    const T mant = (T)(sizeof(T) == 4 ? 16777216.0 : 9007199254740992.0);  // 2^24 / 2^53: last exactly counted integer
    std::vector<T> pos = {(T)0.0, L::denorm_min(), L::min(), (T)0.1, (T)0.5, (T)1 - L::epsilon() / 2, (T)1, (T)1 + L::epsilon(), (T)1.5, (T)2147483648.0, (T)4294967296.0,
        mant - 1, mant, mant + 2, (T)9223372036854775808.0, (T)18446744073709551616.0, L::max(), L::infinity()};
    for (T v : pos) { out.push_back(v); out.push_back(-v); }  // includes -0.0 next to 0.0
    std::stable_sort(out.begin(), out.end());
    return out;
  } else {
    using L = std::numeric_limits<T>;
    const int W = (int)(sizeof(T) * 8);
    std::vector<__int128> raw = {0, (__int128)L::min(), (__int128)L::min() + 1, (__int128)L::max() - 1, (__int128)L::max()};
    std::vector<int> k2 = ks;
    if (k2.empty())
      for (int k = 0; k <= W; k++) k2.push_back(k);
    for (int k : k2) {
      if (k > W) continue;
      __int128 p = (__int128)1 << k;
      for (__int128 v : {p - 1, p, p + 1}) { raw.push_back(v); raw.push_back(-v); }
    }
    std::sort(raw.begin(), raw.end());
    raw.erase(std::unique(raw.begin(), raw.end()), raw.end());
    for (__int128 v : raw)
      if (v >= (__int128)L::min() && v <= (__int128)L::max()) out.push_back((T)v);
    return out;
  }
}

template <class Pt>
struct PairRunner {
  using C = typename PT<Pt>::C;
  using Tree = KDTree<Pt, int64_t>;
  using Ck = Checker<Pt, int64_t>;
  static constexpr int D = PT<Pt>::D;
  vf::Run& r;
  Ck ck;
  explicit PairRunner(vf::Run& run) : r(run), ck(run) {}

  // the points of the case: every tuple over {a,b} for D <= 2, otherwise (a..a), the D tuples with one b, (b..b)
  static std::vector<Pt> points(C a, C b) {
    std::vector<Pt> ps;
    C c[4];
    if (D <= 2) {
      for (int bits = 0; bits < (1 << D); bits++) {
        for (int d = 0; d < D; d++) c[d] = (bits >> d & 1) ? b : a;
        ps.push_back(PT<Pt>::make(c));
      }
      if (D == 1) { c[0] = a; ps.push_back(PT<Pt>::make(c)); }  // 1-D: a duplicate of (a) with its own value
    } else {
      for (int one = -1; one <= D; one++) {
        for (int d = 0; d < D; d++) c[d] = (one == D || d == one) ? b : a;
        ps.push_back(PT<Pt>::make(c));
      }
    }
    return ps;
  }

  void run_case(C a, C b, int order) {
    std::vector<Pt> ps = points(a, b);
    size_t n = ps.size();
    std::vector<size_t> ord(n);
    for (size_t i = 0; i < n; i++) {
      switch (order) {
        case 0: ord[i] = i; break;
        case 1: ord[i] = n - 1 - i; break;
        case 2: ord[i] = i; break;  // replaced below
        default: ord[i] = (i + n / 2) % n; break;
      }
    }
    if (order == 2) {  // any fixed permutation different from the others: odd positions first, then even
      size_t k = 0;
      for (size_t i = 1; i < n; i += 2) ord[k++] = i;
      for (size_t i = 0; i < n; i += 2) ord[k++] = i;
    }
    ck.probes.clear();
    ck.boxes.clear();
    ck.all_probes({a, b});
    ck.all_boxes({a, b}, true);
    ck.hist = [&] {
      std::string s = std::string(PT<Pt>::name()) + "<" + tname<C>() + ">: insert";
      for (size_t i = 0; i < n; i++) s += " " + show_pt(ps[ord[i]]) + "=" + vf::fmt("%zu", ord[i]);
      return s + "; then erase of the first one, then erase_advance of all";
    };
    Holder<Tree> h;
    Model<Pt, int64_t> m;
    bool ok = true;
    for (size_t i = 0; i < n && ok; i++) {
      ck.insert(*h.t, m, ps[ord[i]], (int64_t)ord[i], (i & 1) != 0);
      ok = ck.scan(*h.t, m, "insert");
    }
    if (ok) ck.sweep(*h.t, m, false, PRE_ARROW);
    if (ok) {
      ck.erase(*h.t, m, ps[ord[0]], (int64_t)ord[0]);
      ok = ck.scan(*h.t, m, "erase");
    }
    if (ok) ck.sweep(*h.t, m, true, POST_STAR);
    if (ok) {
      ck.erase(*h.t, m, ps[ord[0]], (int64_t)ord[0]);  // now absent
      ok = ck.traverse(*h.t, m, ~0ull, PRE_ARROW) && ck.scan(*h.t, m, "erase_advance");
    }
    if (ok) ck.sweep(*h.t, m, false, RANGE_FOR);
    ck.destroy(h);
    ck.hist = nullptr;
  }

  void run(const std::vector<C>& alpha, int orders) {
    r.note(std::string("pairs ") + PT<Pt>::name() + "<" + tname<C>() + ">");
    // orders == 0: one insertion order per pair, forward or reverse by the parity of i + j (quick tier, wide alphabets)
    for (size_t i = 0; i < alpha.size(); i++)
      for (size_t j = 0; j < alpha.size(); j++)
        for (int oo = 0; oo < (orders ? orders : 1); oo++) {
          int o = orders ? oo : (int)((i + j) & 1);
          if (!r.take()) continue;
          if (r.wants_desc()) r.desc(std::string(PT<Pt>::name()) + "<" + tname<C>() + vf::fmt("> a=%s b=%s insertion order %d", show_c(alpha[i]).c_str(), show_c(alpha[j]).c_str(), o));
          run_case(alpha[i], alpha[j], o);
          r.nontriv();
          r.ok(std::string(PT<Pt>::name()) + "<" + tname<C>() + ">");
        }
    r.counters["observer_calls_compared"] += ck.calls;
    if (r.shard == 0) r.counters[std::string("alphabet_") + PT<Pt>::name() + "_" + tname<C>()] = alpha.size();  // counters are summed over shards
  }
};

template <class Pt>
void run_pairs(vf::Run& r, const std::vector<typename PT<Pt>::C>& alpha, int orders, std::string& bound) {
  PairRunner<Pt> p(r);
  p.run(alpha, orders);
  bound += vf::fmt("%s%s<%s>: %zu^2 pairs x %s", bound.empty() ? "" : "; ", PT<Pt>::name(), tname<typename PT<Pt>::C>(), alpha.size(),
      orders ? vf::fmt("%d insertion orders", orders).c_str() : "1 insertion order (forward / reverse alternating with the parity of the pair)");
}

}  // namespace c13
