// C03_pairs.hh - non-initial object states, shared by C03_pairs.cc (16/32/64-bit and float wrappers) and
// C03_w8b.cc (8-bit wrappers).  See C03.cc / C03_common.hh.
//
// Section `pairs`:  every write path of a wrapper x every ORDERED PAIR (value the object already holds,
//   value written) over a boundary set (both zeros, NaNs with different payloads, denormals, infinities /
//   0, 1, -1, min, max, single-lane and all-distinct patterns) x object placements (every misalignment,
//   flush against a PROT_NONE page at either end, exact-size heap block) and calling contexts (inside a
//   catch handler, inside a destructor that runs during stack unwinding).
#pragma once
#ifndef C03_NO_FORCE_INLINE
#define C03_NO_FORCE_INLINE
#endif
#include <stdlib.h>

#include <utility>

#include "C03_base.hh"

namespace {

template <class F>
__attribute__((noinline)) void in_catch(F&& f) {
  try {
    throw 1;
  } catch (int) {
    f();
  }
}
template <class F>
struct RunInDtor {
  F& f;
  ~RunInDtor() { f(); }
};
template <class F>
__attribute__((noinline)) void in_unwind(F&& f) {
  try {
    RunInDtor<F> d{f};
    throw 1;
  } catch (int) {
  }
}

// ---- write paths --------------------------------------------------------------------------------
enum Path { P_CTOR, P_ASSIGN, P_BASE_ASSIGN, P_STORE, P_STORE_RAW, P_COPY_ASSIGN, P_MOVE_ASSIGN, P_COPY_CTOR, P_BASE_COPY_ASSIGN, P_RAW_BYTES, P_SELF_ASSIGN, NPATHS };
const char* path_key[NPATHS] = {"ctor", "assign", "base_assign", "store", "store_raw", "copy_assign", "move_assign", "copy_ctor", "base_copy_assign", "raw_bytes", "self_assign"};
const char* path_name[NPATHS] = {"new (&w) W(v)", "w = v", "converted_endian::operator=(v)", "w.store(v)", "w.store_raw(encoded v)", "w = other (copy)", "w = std::move(other)",
    "new (&w) W(other)", "converted_endian::operator=(const converted_endian&)", "memcpy(&w, encoded v)", "w = w"};

struct WriteOut {
  bool has_ret = false, ref_ok = true;
  uint64_t ret_bits = 0;
};

template <class W, class T>
__attribute__((noinline)) void do_write(W* w, W* other, int path, T nv, Order o, WriteOut& out) {
  out = WriteOut();
#define C03_RET(EXPR)                                                                         \
  {                                                                                           \
    auto&& rr = (EXPR);                                                                       \
    out.has_ret = true;                                                                       \
    out.ref_ok = (reinterpret_cast<const void*>(&rr) == reinterpret_cast<const void*>(w));    \
    out.ret_bits = bits_of(static_cast<T>(rr));                                               \
  }
  switch (path) {
    case P_CTOR: new (reinterpret_cast<void*>(w)) W(nv); break;
    case P_ASSIGN: C03_RET(*w = nv) break;
    case P_BASE_ASSIGN: C03_RET(base_of(*w) = nv) break;
    case P_STORE: w->store(nv); break;
    case P_STORE_RAW: {
      decltype(w->load_raw()) raw;
      auto img = encode_u(nv, o);
      static_assert(sizeof(raw) == sizeof(img), "StoredT has the size of ExposedT");
      memcpy(&raw, &img, sizeof(raw));
      w->store_raw(raw);
      break;
    }
    case P_COPY_ASSIGN: C03_RET(*w = *static_cast<const W*>(other)) break;
    case P_MOVE_ASSIGN: C03_RET(*w = std::move(*other)) break;
    case P_COPY_CTOR: new (reinterpret_cast<void*>(w)) W(*static_cast<const W*>(other)); break;
    case P_BASE_COPY_ASSIGN: C03_RET(base_of(*w) = base_of(*static_cast<const W*>(other))) break;
    case P_RAW_BYTES: {
      auto img = encode_u(nv, o);
      memcpy(reinterpret_cast<void*>(w), &img, sizeof(T));
      break;
    }
    default: {
      W& alias = *w;
      C03_RET(*w = alias)
      break;
    }
  }
#undef C03_RET
}

// ---- placements / contexts ------------------------------------------------------------------------
enum { SET_OFF1 = 0, SET_OFF7 = 6, SET_GUARD_END, SET_GUARD_START, SET_HEAP, SET_CATCH, SET_UNWIND, NSETTINGS };
std::string setting_name(int s) {
  if (s <= SET_OFF7) return vf::fmt("at address = %d mod 16", s + 1);
  switch (s) {
    case SET_GUARD_END: return "ending flush against a PROT_NONE page";
    case SET_GUARD_START: return "starting flush after a PROT_NONE page";
    case SET_HEAP: return "in an exact-size heap block";
    case SET_CATCH: return "operation executed inside a catch handler";
    default: return "operation executed in a destructor during stack unwinding";
  }
}

struct Arena {
  alignas(16) uint8_t buf[64];
  alignas(16) uint8_t obuf[64];
  vf::GuardBuf gb{4096};
  uint8_t* heap = nullptr;
  size_t heap_n = 0;
  ~Arena() { free(heap); }
  struct Spot {
    uint8_t *obj, *lo, *hi;  // lo/hi: 8 canary bytes before / after (nullptr where a guard page or redzone is)
  };
  Spot spot(int s, size_t n) {
    if (s <= SET_OFF7 || s >= SET_CATCH) {
      int k = s <= SET_OFF7 ? s + 1 : 1;
      uint8_t* p = buf + 16 + k;
      return {p, p - 8, p + n};
    }
    if (s == SET_GUARD_END) return {gb.data + 4096 - n, gb.data + 4096 - n - 8, nullptr};
    if (s == SET_GUARD_START) return {gb.data, nullptr, gb.data + n};
    if (heap_n != n) {
      free(heap);
      heap = static_cast<uint8_t*>(malloc(n));
      heap_n = n;
    }
    return {heap, nullptr, nullptr};
  }
  uint8_t* other_spot() { return obuf + 16 + 3; }
};

inline bool canaries_ok(const uint8_t* p) {
  if (!p) return true;
  for (int i = 0; i < 8; i++)
    if (p[i] != 0xC3) return false;
  return true;
}

template <class T>
std::string bytes_of_img(typename UIntFor<sizeof(T)>::type img) { return hexbytes(img, sizeof(T)); }

// One case: object at `setting` holds `prev`; write `nv` through `path`; compare everything observable.
template <class W, class T>
void pair_case(vf::Run& r, Arena& ar, const char* wname, Order o, int setting, int path, T prev, T nv, uint64_t* okc) {
  using U = typename UIntFor<sizeof(T)>::type;
  Arena::Spot sp = ar.spot(setting, sizeof(T));
  if (sp.lo) memset(sp.lo, 0xC3, 8);
  if (sp.hi) memset(sp.hi, 0xC3, 8);
  U prev_img = encode_u(prev, o), nv_img = encode_u(nv, o);
  W* w = new (reinterpret_cast<void*>(sp.obj)) W;
  memcpy(reinterpret_cast<void*>(w), &prev_img, sizeof(T));
  uint8_t* op = ar.other_spot();
  memset(op - 8, 0xC3, 8);
  memset(op + sizeof(T), 0xC3, 8);
  W* other = new (reinterpret_cast<void*>(op)) W;
  memcpy(reinterpret_cast<void*>(other), &nv_img, sizeof(T));
  if (r.wants_desc()) r.desc(vf::fmt("%s %s holding %s: %s, v = %s", wname, setting_name(setting).c_str(), show_val<T>(bits_of(prev)).c_str(), path_name[path], show_val<T>(bits_of(nv)).c_str()));

  WriteOut out;
  auto body = [&] { do_write<W, T>(w, other, path, nv, o, out); };
  r.poison_errno();
  if (setting == SET_CATCH) in_catch(body);
  else if (setting == SET_UNWIND) in_unwind(body);
  else body();

  T want = path == P_SELF_ASSIGN ? prev : nv;
  U want_img = encode_u(want, o);
  U got_img, rawv_img, other_img;
  memcpy(&got_img, sp.obj, sizeof(T));
  const W* cw = w;
  uint64_t ld = bits_of(cw->load()), cv = bits_of(static_cast<T>(*cw));
  auto rawv = cw->load_raw();
  memcpy(&rawv_img, &rawv, sizeof(T));
  memcpy(&other_img, op, sizeof(T));
  r.nontriv();
  const char* kind = nullptr;
  if (!canaries_ok(sp.lo) || !canaries_ok(sp.hi) || !canaries_ok(op - 8) || !canaries_ok(op + sizeof(T))) kind = "writes-outside-object";
  else if (got_img != want_img || ld != bits_of(want) || cv != bits_of(want) || rawv_img != want_img) kind = "stored-value";
  else if (out.has_ret && (out.ret_bits != bits_of(want) || !out.ref_ok)) kind = "returned-value";
  else if (other_img != nv_img && path != P_MOVE_ASSIGN) kind = "source-modified";
  if (kind) {
    r.fail(std::string(path_key[path]) + ":" + kind, [&] {
      return vf::fmt("%s (%s %d-bit) %s holding %s [%s]: %s with v = %s | expected: bytes [%s], load() %s | observed: bytes [%s], load() %s, conversion %s, load_raw() image [%s]%s; source object bytes [%s]",
          wname, order_name(o), (int)sizeof(T) * 8, setting_name(setting).c_str(), show_val<T>(bits_of(prev)).c_str(), bytes_of_img<T>(prev_img).c_str(), path_name[path],
          show_val<T>(bits_of(nv)).c_str(), bytes_of_img<T>(want_img).c_str(), show_val<T>(bits_of(want)).c_str(), bytes_of_img<T>(got_img).c_str(), show_val<T>(ld).c_str(),
          show_val<T>(cv).c_str(), bytes_of_img<T>(rawv_img).c_str(),
          out.has_ret ? vf::fmt(", expression yields %s (%s)", show_val<T>(out.ret_bits).c_str(), out.ref_ok ? "reference to the object" : "NOT a reference to the object").c_str() : "",
          bytes_of_img<T>(other_img).c_str());
    });
  } else okc[path]++;
}

template <class W, class T>
void drive_pairs(vf::Run& r, Arena& ar, const char* wname, Order o, const std::vector<T>& prevs, const std::vector<T>& news, int nsettings) {
  r.note(std::string("pairs ") + wname);
  uint64_t okc[NPATHS] = {0};
  for (int setting = 0; setting < nsettings; setting++)
    for (int path = 0; path < NPATHS; path++)
      for (T prev : prevs) {
        if (path == P_SELF_ASSIGN) {
          if (!r.take()) continue;
          pair_case<W, T>(r, ar, wname, o, setting, path, prev, prev, okc);
          continue;
        }
        for (T nv : news) {
          if (!r.take()) continue;
          pair_case<W, T>(r, ar, wname, o, setting, path, prev, nv, okc);
        }
      }
  for (int p = 0; p < NPATHS; p++)
    if (okc[p]) r.hist[std::string(wname) + "/" + path_name[p] + ":bytes+load()+returned value bit-exact"] += okc[p];
}

// ---- boundary sets --------------------------------------------------------------------------------
template <class T>
std::vector<T> pair_values() {
  std::vector<uint64_t> b;
  constexpr int w = sizeof(T) * 8;
  const uint64_t mask = w == 64 ? ~0ull : ((1ull << w) - 1);
  if constexpr (std::is_same_v<T, float>) {
    b = {0x00000000, 0x80000000, 0x3F800000, 0xBF800000, 0x00000001, 0x80000001, 0x7FC00000, 0x7FC12345, 0xFFC00001, 0x7F800001, 0xFFA5A5A5, 0x7F800000, 0xFF800000,
        0x7F7FFFFF, 0x00800000, 0x40000000, 0x3F000000, 0x4B800000, 0x01020304, 0xFEFDFCFB, 0xA5A5A5A5, 0x00FF00FF, 0x0000803F, 0x00000080};
  } else if constexpr (std::is_same_v<T, double>) {
    b = {0x0000000000000000ull, 0x8000000000000000ull, 0x3FF0000000000000ull, 0xBFF0000000000000ull, 0x0000000000000001ull, 0x8000000000000001ull, 0x7FF8000000000000ull,
        0x7FF8000012345678ull, 0xFFF8000000000001ull, 0x7FF0000000000001ull, 0xFFF5A5A5A5A5A5A5ull, 0x7FF0000000000000ull, 0xFFF0000000000000ull, 0x7FEFFFFFFFFFFFFFull,
        0x0010000000000000ull, 0x4000000000000000ull, 0x3FE0000000000000ull, 0x4340000000000000ull, 0x0102030405060708ull, 0xFEFDFCFBFAF9F8F7ull, 0xA5A5A5A5A5A5A5A5ull,
        0x00FF00FF00FF00FFull, 0x000000000000F03Full, 0x0000000000000080ull};
  } else {
    b = {0, 1, 2, mask, mask - 1, 1ull << (w - 1), (1ull << (w - 1)) - 1, (1ull << (w - 1)) + 1, mask - (1ull << (w - 1)) - 1, 0x7F, 0x80, 0xFF, 0x100, 1ull << (w - 8), 0x80ull << (w - 8), 0xFFull << (w - 8),
        (0xFFull << (w - 8)) | 1, (1ull << (w - 8)) | 1, 0x0102030405060708ull & mask, ~0x0102030405060708ull & mask, 0xA5A5A5A5A5A5A5A5ull & mask, 0x5A5A5A5A5A5A5A5Aull & mask,
        0x00FF00FF00FF00FFull & mask, 0xFF00FF00FF00FF00ull & mask, 10, 0x7FFF};
  }
  std::vector<uint64_t> u;
  for (uint64_t x : b) {
    x &= mask;
    bool seen = false;
    for (uint64_t y : u) seen = seen || y == x;
    if (!seen) u.push_back(x);
  }
  return typed<T>(u);
}

template <class T>
std::vector<T> wide_pair_values(const std::vector<T>& base) {
  std::vector<uint64_t> b;
  if constexpr (sizeof(T) == 1) {
    for (uint32_t v = 0; v < 0x100; v++) b.push_back(v);
  } else if constexpr (sizeof(T) == 2) {
    for (uint32_t v = 0; v < 0x10000; v++) b.push_back(v);
  } else if constexpr (sizeof(T) == 4) {
    b = lane_set(L5, 5, 4);
  } else {
    for (uint64_t k = 0; k < 625; k++) {
      uint64_t x = k, val = 0;
      static const int pos[4] = {0, 3, 4, 7};
      for (int i = 0; i < 4; i++) {
        val |= static_cast<uint64_t>(L5[x % 5]) << (8 * pos[i]);
        x /= 5;
      }
      b.push_back(val);
    }
    auto wb = lane_set(L5, 1, 8);
    b.insert(b.end(), wb.begin() + 1, wb.end());
  }
  std::vector<T> v = typed<T>(b);
  v.insert(v.end(), base.begin(), base.end());
  return v;
}

}  // namespace
