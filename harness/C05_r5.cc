// C05 round-5 section (same oracle as every other C05 section: c05::Judge / c05::check_text).
//
//   numgrid : the decimal text -> double conversion of JSON::parse as a GRID over its independent dimensions
//             (digit-string shape) x (decimal exponent) instead of the one-dimensional ladders of `bounds`:
//               shape A  <I integer digits>[.<F fraction digits>]      I, F from ladders 1..700 (one digit string of I+F
//                                                                      digits, the point after the first I)
//               shape B  0.<Z zeros><S significant digits>             Z, S from ladders 0..700
//               shape C  very long digit strings (1000 / 2500 / 5000 integer digits, or that many leading zeros)
//             x 4 digit fills (1000.., 999.., 777.., 1 0..0 1) x sign x
//             exponent in { none } u RAW ladder (0..5000, both signs: every range around +-308, +-324, +-400, +-1000,
//             +-5000) u TARGETED exponents (chosen so that the VALUE lands on a ladder of magnitudes 1e-340..1e330, i.e.
//             every shape is crossed with "result at the bottom / middle / top of the double range", whatever
//             exponent that needs: 1<699 zeros>e-1007 is 1e-308).
//             Every text goes through the full entry set x both modes; for every (shape, fill, sign) all numbers
//             whose value is inside the statement are additionally parsed as the elements of ONE list and as the
//             values of ONE dictionary (every position of a container).
//             Reference: R_std evaluates a number with glibc strtod (correctly rounded); the section additionally
//             cross-checks that value against std::from_chars (second correctly rounded conversion, bit-exact) and
//             the Python stage replays every text through json.loads / float().  Values: relative 1e-9 as everywhere
//             in C05; numbers that are not finite normal doubles (overflow, underflow, denormal) and integer-syntax
//             numbers beyond int64 stay outside the statement (executed for totality only).
#include <charconv>
#include <set>

#include "C05_common.hh"

using namespace phosg;
using namespace c05;

namespace {

const char* const FILL_NAME[4] = {"1000..", "999..", "777..", "10..01"};

// n digits of fill k; "" when the fill would repeat a text of an earlier fill
std::string fill_digits(int k, size_t n) {
  if (n == 0) return "";
  switch (k) {
    case 0: return "1" + std::string(n - 1, '0');
    case 1: return std::string(n, '9');
    case 2: return std::string(n, '7');
    default: return n < 2 ? std::string() : "1" + std::string(n - 2, '0') + "1";
  }
}

struct Shape {
  int kind;      // 0: A (I digits . F digits), 1: B (0 . Z zeros S digits)
  size_t a, b;   // I, F  or  Z, S
  long mag;      // decimal exponent of the leading significant digit (value ~ d.ddd x 10^mag)
};

std::string mantissa(const Shape& sh, int fill) {
  if (sh.kind == 0) {
    std::string d = fill_digits(fill, sh.a + sh.b);
    if (d.empty()) return d;
    return sh.b ? d.substr(0, sh.a) + "." + d.substr(sh.a) : d;
  }
  std::string d = fill_digits(fill, sh.b);
  if (d.empty()) return d;
  return "0." + std::string(sh.a, '0') + d;
}

std::vector<Shape> shapes(bool thorough) {
  std::vector<Shape> v;
  static const size_t IL[] = {1, 2, 15, 16, 17, 18, 19, 20, 38, 39, 40, 76, 77, 78, 79, 80, 150, 299, 300, 301, 302, 303, 304, 305, 306, 307, 308, 309, 310, 311, 312, 330, 400, 700};
  static const size_t FL[] = {0, 1, 2, 17, 40, 80, 310, 700};
  static const size_t ZL[] = {0, 1, 2, 17, 80, 299, 300, 307, 308, 309, 323, 324, 400, 700};
  static const size_t SL[] = {1, 2, 17, 40, 310, 700};
  for (size_t F : FL)
    for (size_t I : IL) v.push_back({0, I, F, (long)I - 1});
  for (size_t S : SL)
    for (size_t Z : ZL) v.push_back({1, Z, S, -(long)Z - 1});
  // very long digit strings
  for (size_t n : {1000, 2500, 5000}) {
    v.push_back({0, n, 0, (long)n - 1});
    v.push_back({0, n, 1, (long)n - 1});
    v.push_back({1, n, 1, -(long)n - 1});
    v.push_back({1, n, 17, -(long)n - 1});
    if (thorough) {
      v.push_back({0, n, n, (long)n - 1});
      v.push_back({1, n, n, -(long)n - 1});
    }
  }
  return v;
}

constexpr long NO_EXP = 1000000;

// exponent fields for a shape: none, the raw ladder, and the exponents that put the value on the magnitude ladder
std::vector<std::pair<long, const char*>> exponents(const Shape& sh) {
  static const long RAW[] = {0, 1, 2, 9, 10, 17, 99, 100, 101, 290, 299, 300, 301, 307, 308, 309, 310, 323, 324, 325, 330, 399, 400, 401, 450, 500, 700, 999, 1000, 1001, 4999, 5000};
  static const long MAG[] = {-340, -330, -325, -324, -323, -322, -310, -309, -308, -307, -306, -300, -291, -250, -100, -20, -1, 0, 1, 20, 100, 250, 291, 300, 306, 307, 308, 309, 310, 330};
  std::vector<std::pair<long, const char*>> v;
  std::set<long> seen;
  v.push_back({NO_EXP, ""});
  for (long e : RAW) {
    if (seen.insert(e).second) v.push_back({e, "e"});
    if (e && seen.insert(-e).second) v.push_back({-e, "e-"});
  }
  for (long m : MAG) {
    long e = m - sh.mag;
    if (seen.insert(e).second) v.push_back({e, e < 0 ? "E-" : "E+"});
  }
  return v;
}

std::string number_text(const std::string& mant, bool neg, const std::pair<long, const char*>& ex) {
  std::string s = neg ? "-" + mant : mant;
  if (ex.first != NO_EXP) s += ex.second + std::to_string(ex.first < 0 ? -ex.first : ex.first);
  return s;
}

// true when R_std puts the (top-level) number inside the statement; *d receives its reference value when it is a float
bool inside_statement(const std::string& s, double* d = nullptr, bool* is_float = nullptr) {
  jref::Result st = jref::parse(s, false);
  if (!st.accepted || st.outside()) return false;
  if (is_float) *is_float = st.value.k == jref::Val::FLT;
  if (d && st.value.k == jref::Val::FLT) *d = st.value.d;
  return true;
}

}  // namespace

VF_SECTION(numgrid, 16, 16, 180) {
  FILE* dat = jref::dat_open(r.section, r.shard);
  r.note("JSON::parse");
  const std::vector<Shape> SH = shapes(r.thorough());
  size_t ntext = 0, ndoc = 0;
  for (const Shape& sh : SH) {
    auto EX = exponents(sh);
    for (int fill = 0; fill < 4; fill++) {
      if (fill == 3 && (sh.kind == 0 ? sh.a + sh.b : sh.b) < 2) continue;  // a one-digit "10..01" would repeat the text of fill "1000.."
      for (int neg = 0; neg < 2; neg++) {
        // (1) every number alone
        for (auto& ex : EX) {
          // integer syntax beyond Python's 4300-digit limit for int(): the Python stage could not read it
          if (ex.first == NO_EXP && sh.kind == 0 && sh.b == 0 && sh.a > 4000) continue;
          ntext++;
          if (!r.take()) continue;
          std::string s = number_text(mantissa(sh, fill), neg, ex);
          if (r.wants_desc())
            r.desc(vf::fmt("%s, fill %s, %s%s", sh.kind == 0 ? vf::fmt("%zu integer digits, %zu fraction digits", sh.a, sh.b).c_str() : vf::fmt("0.<%zu zeros><%zu digits>", sh.a, sh.b).c_str(),
                FILL_NAME[fill], neg ? "negative, " : "", ex.first == NO_EXP ? "no exponent" : vf::fmt("exponent %s%ld", ex.second, ex.first < 0 ? -ex.first : ex.first).c_str()));
          // second correctly rounded conversion of the same literal (binds the reference value inside the harness)
          double ref = 0;
          bool is_float = false;
          if (inside_statement(s, &ref, &is_float) && is_float) {
            double fc = 0;
            auto res = std::from_chars(s.data(), s.data() + s.size(), fc);
            r.xchecked++;
            if (res.ec != std::errc() || res.ptr != s.data() + s.size() || memcmp(&fc, &ref, sizeof(fc))) {
              r.fail("reference:strtod-and-from_chars-disagree", [&] { return vf::fmt("number %s: strtod %.17g, std::from_chars %.17g (ec %d)", brief(s).c_str(), ref, fc, (int)res.ec); });
              continue;
            }
          }
          check_text(r, s, dat, ES_FULL);
        }
        // (2) all numbers of this (shape, fill, sign) that are inside the statement as the elements of one list and
        //     as the values of one dictionary
        for (int container = 0; container < 2; container++) {
          ndoc++;
          if (!r.take()) continue;
          std::string mant = mantissa(sh, fill), doc = container ? "{" : "[";
          size_t k = 0;
          for (auto& ex : EX) {
            std::string s = number_text(mant, neg, ex);
            if (!inside_statement(s)) continue;
            if (k) doc += ',';
            if (container) doc += "\"k" + std::to_string(k) + "\":";
            doc += s;
            k++;
          }
          doc += container ? "}" : "]";
          if (r.wants_desc())
            r.desc(vf::fmt("%s of the %zu in-range numbers of %s, fill %s%s", container ? "dictionary" : "list", k,
                sh.kind == 0 ? vf::fmt("%zu integer digits, %zu fraction digits", sh.a, sh.b).c_str() : vf::fmt("0.<%zu zeros><%zu digits>", sh.a, sh.b).c_str(), FILL_NAME[fill], neg ? ", negative" : ""));
          r.counters["numbers_inside_containers"] += k;
          check_text(r, doc, dat, ES_CORE);
        }
      }
    }
  }
  if (dat) fclose(dat);
  r.counters["number_texts"] += r.shard == 0 ? ntext : 0;
  r.counters["container_documents"] += r.shard == 0 ? ndoc : 0;
  r.bound = vf::fmt("decimal numbers <I digits>[.<F digits>] for I in {1,2,15..20,38..40,76..80,150,299..312,330,400,700} x F in {0,1,2,17,40,80,310,700}, 0.<Z zeros><S digits> for Z in "
                    "{0,1,2,17,80,299,300,307,308,309,323,324,400,700} x S in {1,2,17,40,310,700}, and 1000/2500/5000-digit integer parts or zero runs (%zu shapes) x 4 digit fills (1000.., "
                    "999.., 777.., 10..01) x sign x {no exponent; 63 raw exponents 0..+-5000 around +-308, +-324, +-400, +-1000, +-5000; up to 30 exponents that put the value at 1e-340..1e330 "
                    "(30 magnitudes incl. 1e-324..1e-306 and 1e306..1e310)}: %zu number texts through all entries x both modes, plus %zu list / dictionary documents holding every in-range "
                    "number of one (shape, fill, sign); reference strtod cross-checked bit-exactly against std::from_chars and (Python stage) float()",
      SH.size(), ntext, ndoc);
}
