// C19 (part, round 5, continued from C19_types4.cc - parts (2) and (3)): the relation macros over the TYPES involved - (1) further mixed operand-type pairs (128-bit
// integers, int x long long, unsigned x wider signed, character types, float x long double, floating x 64-bit integers,
// library types compared across types) and (2) the type of the RESULT of the relation: user-defined comparison
// operators that return something other than bool (double 0.5, a denormal float, a 128-bit integer with the low 64
// bits clear, a 64-bit integer above 2^32, a pointer, an enumeration, class types converting to bool).  The stated
// relation is the C++ expression (a) OP (b) converted to bool; the oracle evaluates exactly that expression on the same
// operands.  Every macro call is behind the feature test of call_rel (C19_common.hh).
#include <atomic>
#include <bitset>
#include <chrono>
#include <compare>

#include "C19_rel.hh"

using namespace phosg;
using namespace c19;

namespace {

using c19::sv;

// ---- comparison operators whose result is not a bool -------------------------------------------------------
// Ret<Tag>: six operators returning Tag::type, Tag::yes() for "holds" and Tag::no() for "does not hold"
template <class Tag>
struct Ret {
  int v;
};
#define C19_RET_OP(OP) \
  template <class Tag> \
  typename Tag::type operator OP(Ret<Tag> a, Ret<Tag> b) { return (a.v OP b.v) ? Tag::yes() : Tag::no(); }
C19_RET_OP(==)
C19_RET_OP(!=)
C19_RET_OP(<)
C19_RET_OP(<=)
C19_RET_OP(>)
C19_RET_OP(>=)
#undef C19_RET_OP
template <class Tag>
std::string sv(const Ret<Tag>& x) { return vf::fmt("{%d}", x.v); }

struct ImplicitBoolClass {
  bool b;
  operator bool() const { return b; }
};
struct ExplicitBoolClass {
  bool b;
  explicit operator bool() const { return b; }
};
struct ViaDoubleClass {
  double d;
  operator double() const { return d; }
};
enum BigEnum : uint64_t { BE_NO = 0, BE_YES = 1ull << 63 };
std::bitset<1> g_bit_yes(1), g_bit_no(0);
std::bitset<1>::reference bit_yes() { return g_bit_yes[0]; }
std::bitset<1>::reference bit_no() { return g_bit_no[0]; }

#define C19_TAG(NAME, TYPE, YES, NO) \
  struct NAME { \
    using type = TYPE; \
    static type yes() { return YES; } \
    static type no() { return NO; } \
    static const char* name() { return "operators returning " #TYPE " (" #YES " / " #NO ")"; } \
  };
C19_TAG(TDouble, double, 0.5, 0.0)
C19_TAG(TDoubleNeg, double, -0.25, -0.0)
C19_TAG(TDoubleNan, double, __builtin_nan(""), 0.0)
C19_TAG(TFloatDenorm, float, 1e-45f, 0.0f)
C19_TAG(TLongDouble, long double, 1e-4940L, 0.0L)
C19_TAG(TU128, unsigned __int128, (unsigned __int128)1 << 64, 0)
C19_TAG(TI128, __int128, (__int128)1 << 100, 0)
C19_TAG(TInt64, long long, 1ll << 32, 0)
C19_TAG(TUInt64, unsigned long long, 1ull << 63, 0)
C19_TAG(TUInt8, unsigned char, 0x80, 0)
C19_TAG(TPtr, const int*, &g_arr[0], nullptr)
C19_TAG(TEnum, BigEnum, BE_YES, BE_NO)
C19_TAG(TImplicit, ImplicitBoolClass, ImplicitBoolClass{true}, ImplicitBoolClass{false})
C19_TAG(TExplicit, ExplicitBoolClass, ExplicitBoolClass{true}, ExplicitBoolClass{false})
C19_TAG(TViaDouble, ViaDoubleClass, ViaDoubleClass{0.5}, ViaDoubleClass{0.0})
C19_TAG(TBitRef, std::bitset<1>::reference, bit_yes(), bit_no())
#undef C19_TAG

template <class Tag>
void ret_relations(vf::Run& r, const std::vector<int>& C) {
  check_relations<Ret<Tag>>(r, Tag::name(), {{-1}, {0}, {1}}, C);
}

// ---- three-way comparison ---------------------------------------------------------------------------------
struct Strong {
  int v;
  auto operator<=>(const Strong&) const = default;  // std::strong_ordering, == defaulted
};
std::string sv(const Strong& x) { return vf::fmt("Strong{%d}", x.v); }
struct Weak {  // case-insensitive: equivalent values that are not identical
  char c;
  static int fold(char c) { return (c >= 'A' && c <= 'Z') ? c + 32 : c; }
  std::weak_ordering operator<=>(const Weak& o) const { return fold(c) <=> fold(o.c); }
  bool operator==(const Weak& o) const { return fold(c) == fold(o.c); }
};
std::string sv(const Weak& x) { return vf::fmt("Weak{'%c'}", x.c); }
struct Meters {  // heterogeneous: compares with int only; int OP Meters exists only through the reversed candidates
  int v;
  std::strong_ordering operator<=>(int o) const { return v <=> o; }
  bool operator==(int o) const { return v == o; }
};
std::string sv(const Meters& x) { return vf::fmt("Meters{%d}", x.v); }
struct PartialF {  // hand-written partial order over float: NaN is unordered with everything
  float v;
  std::partial_ordering operator<=>(const PartialF& o) const { return v <=> o.v; }
  bool operator==(const PartialF& o) const { return v == o.v; }
};
std::string sv(const PartialF& x) { return vf::fmt("PartialF{%g}", x.v); }

std::vector<__int128> i128_values() {
  __int128 one = 1;
  return {0, 1, -1, one << 31, one << 32, -(one << 32), one << 63, -(one << 63), one << 64, -(one << 64), (one << 64) + 1, (one << 64) * 3, one << 96, -(one << 96),
      (__int128)(((unsigned __int128)1 << 127) - 1), (__int128)((unsigned __int128)1 << 127)};
}
std::vector<unsigned __int128> u128_values() {
  unsigned __int128 one = 1;
  return {0, 1, one << 32, one << 63, one << 64, (one << 64) + 1, one << 65, (one << 64) * 3, one << 96, one << 127, ~(unsigned __int128)0};
}

}  // namespace

VF_SECTION(relation_results, 2, 2, 120) {
  const auto& C = all_ctx();
  // ---- (2) the type of the relation's result ----
  ret_relations<TDouble>(r, C);
  ret_relations<TDoubleNeg>(r, C);
  ret_relations<TDoubleNan>(r, C);
  ret_relations<TFloatDenorm>(r, C);
  ret_relations<TLongDouble>(r, C);
  ret_relations<TU128>(r, C);
  ret_relations<TI128>(r, C);
  ret_relations<TInt64>(r, C);
  ret_relations<TUInt64>(r, C);
  ret_relations<TUInt8>(r, C);
  ret_relations<TPtr>(r, C);
  ret_relations<TEnum>(r, C);
  ret_relations<TImplicit>(r, C);
  ret_relations<TExplicit>(r, C);
  ret_relations<TViaDouble>(r, C);
  ret_relations<TBitRef>(r, C);
  // ---- (3) three-way comparison: every category, homogeneous and heterogeneous (reversed candidates) ----
  check_relations<Strong>(r, "defaulted <=> (strong_ordering)", {{-1}, {0}, {1}}, C);
  check_relations<Weak>(r, "user <=> (weak_ordering)", {{'a'}, {'A'}, {'b'}, {'B'}}, C);
  check_relations<PartialF>(r, "user <=> (partial_ordering over float)", {{-1.0f}, {0.0f}, {-0.0f}, {__builtin_nanf("")}}, C);
  check_relations<Meters, int>(r, "Meters x int (<=> with int)", {{-1}, {0}, {1}}, {-1, 0, 1}, C);
  check_relations<int, Meters>(r, "int x Meters (reversed <=> candidates)", {-1, 0, 1}, {{-1}, {0}, {1}}, C);
  r.bound = "8 macro forms x all ordered operand pairs x 10 execution contexts of: 16 operand types whose six comparison operators return a non-bool result (double 0.5 / -0.25 / NaN, denormal float, long double 1e-4940, unsigned __int128 2^64, __int128 2^100, long long 2^32, unsigned long long 2^63, unsigned char 0x80, pointer, enum : uint64_t 2^63, class with implicit / explicit operator bool, class converting through double 0.5, bitset<1>::reference); "
            "three-way comparison: defaulted strong_ordering, user weak_ordering and partial_ordering (NaN), heterogeneous Meters x int in both orders (reversed candidates); every macro call behind a feature test (ill-formed although the relation's value converts implicitly to bool = finding; only explicitly convertible = not applicable)";
}
