// C13_chain.hh — round 5: SHAPE extremes (degenerate chains, big bushy trees) on small thread stacks.
//
// The E-BFS / E-ENUM sections hold at most 7 live entries: nothing whose cost or stack use grows with the number
// of entries or with the DEPTH of the tree is visible to them.  KDTree never rebalances, so a monotone or tied
// insertion order produces a chain as deep as the number of entries; the statement demands the multiset behaviour
// "after any sequence" and destruction "safe in every state", and every public operation it names is iterative.
//
// The sections built on this header enumerate every (insertion-order family x size ladder x coordinate world x
// stack kind x ending) and run the complete life cycle of one tree on it, in a forked child (a stack overflow is a
// fatal signal), on the child's main thread or on a thread created with a 128 KiB / 64 KiB stack.
//
// The life cycle and its brute-force model are NOT templates: they work in an integer "c-space" (coordinates are
// small non-negative integers) through the virtual interface TreeIf; TreeImpl<Pt> maps c-space to the coordinate
// type of the world by a strictly increasing exact map (so order, ties and box membership are the same on both
// sides) and forwards to the real KDTree<Pt, Tracked>.
#pragma once
#include <array>

#include "C13_gen.hh"

namespace c13chain {

using namespace c13;

struct Ent {
  int64_t c[4];
  int64_t v;
  bool moved;
};

struct TreeIf {
  virtual ~TreeIf() {}
  virtual const char* name() const = 0;
  virtual int dims() const = 0;
  virtual bool fits(int64_t cmax) const = 0;  // every c in [0, cmax] is mapped exactly and injectively
  virtual void create() = 0;                  // placement-new of an empty tree
  virtual void destroy() = 0;                 // explicit destructor call
  virtual bool insert(const int64_t* c, int64_t v, bool emplace) = 0;  // true: returned iterator designates the new entry
  virtual size_t size() = 0;
  virtual void iterate(int style, size_t limit, std::vector<Ent>& out) = 0;
  // one traversal; erase_advance instead of ++ at the visit numbers listed in `at` (ascending) or at every visit
  virtual void traverse_erasing(const std::vector<size_t>& at, bool all, size_t limit, std::vector<Ent>& out) = 0;
  virtual bool erase(const int64_t* c, int64_t v) = 0;
  virtual bool exists_pt(const int64_t* c) = 0;
  virtual void at(const int64_t* c, Ent& out) = 0;  // exceptions pass through
  virtual void within(const int64_t* lo, const int64_t* hi, std::vector<Ent>& out) = 0;
  virtual bool exists_box(const int64_t* lo, const int64_t* hi) = 0;
  virtual bool begin_is_end() = 0;
  virtual size_t white_depth() = 0;  // number of levels, computed iteratively from the node links (white box)
  virtual size_t lib_depth() = 0;    // KDTree::depth() (outside the statement; recursive in the library)
  // White-box construction of the structure that n insert() calls produce for a family in which every new entry lands
  // below the previously inserted one (a pure chain): node i+1 becomes the child of node i on the side the split rule
  // dictates.  Linear instead of quadratic.  The path constraints (per-axis interval that the descent has narrowed so far)
  // are checked for every node, so the result is a valid KD tree whose every node was inserted after its parent - which is
  // exactly the tree insert() builds; the `linked_equals_inserted` section compares the two node by node at sizes where
  // both are affordable.
  virtual bool link_chain(const std::vector<int64_t>& c, size_t n, std::string& problem) = 0;
  virtual uint64_t preorder_digest() = 0;  // pre-order hash of (point, value, dim, which children exist, parent link ok), iterative
};

template <class Pt>
struct TreeImpl : TreeIf {
  using C = typename PT<Pt>::C;
  using Tree = KDTree<Pt, Tracked>;
  using Node = typename Tree::Node;
  static constexpr int D = PT<Pt>::D;
  alignas(Tree) unsigned char buf[sizeof(Tree)];
  Tree* t = nullptr;
  const char* nm;
  explicit TreeImpl(const char* n) : nm(n) {}

  static C conv(int64_t c) {
    if constexpr (std::is_floating_point_v<C>) return (C)((double)c * 0.5 - 3.0);
    else if constexpr (std::is_signed_v<C>) return (C)(c - 3);
    else return (C)c;
  }
  static int64_t back(C x) {
    if constexpr (std::is_floating_point_v<C>) {
      double d = ((double)x + 3.0) * 2.0;
      if (!(d >= -1e6 && d <= 1e15) || d != (double)(int64_t)d) return -999;
      return (int64_t)d;
    } else if constexpr (std::is_signed_v<C>) return (int64_t)x + 3;
    else return (int64_t)x;
  }
  static Pt mk(const int64_t* c) {
    C a[4] = {};
    for (int d = 0; d < D; d++) a[d] = conv(c[d]);
    return PT<Pt>::make(a);
  }
  static void ent(const Pt& p, const Tracked& v, Ent& o) {
    for (int d = 0; d < 4; d++) o.c[d] = d < D ? back(PT<Pt>::get(p, d)) : 0;
    o.v = v.v;
    o.moved = v.moved_from;
  }

  const char* name() const override { return nm; }
  int dims() const override { return D; }
  bool fits(int64_t cmax) const override {
    if constexpr (std::is_same_v<C, float>) return cmax <= (1 << 22);
    else if constexpr (std::is_floating_point_v<C>) return cmax <= ((int64_t)1 << 50);
    else if constexpr (sizeof(C) >= 8) return cmax <= ((int64_t)1 << 60);
    else return cmax <= (int64_t)std::numeric_limits<C>::max();
  }
  void create() override { t = new (buf) Tree(); }
  void destroy() override {
    Tree* x = t;
    t = nullptr;
    x->~Tree();
  }
  bool insert(const int64_t* c, int64_t v, bool emplace) override {
    Pt p = mk(c);
    Tracked val(v);
#ifdef C13_HAVE_EMPLACE
    if (emplace) {
      auto it = t->emplace(p, val);
      return it != t->end() && same_pt(it->first, p) && it->second == val;
    }
#endif
    (void)emplace;
    auto it = t->insert(p, val);
    return it != t->end() && same_pt(it->first, p) && it->second == val;
  }
  size_t size() override { return t->size(); }
  void iterate(int style, size_t limit, std::vector<Ent>& out) override {
    Ent e;
    if (style == RANGE_FOR) {
      for (const auto& x : *t) {
        if (out.size() >= limit) return;
        ent(x.first, x.second, e);
        out.push_back(e);
      }
      return;
    }
    auto it = t->begin();
    const auto end = t->end();
    while (it != end) {
      if (out.size() >= limit) return;
      if (style == POST_STAR) {
        auto old = it++;
        ent((*old).first, (*old).second, e);
      } else {
        ent(it->first, it->second, e);
        ++it;
      }
      out.push_back(e);
    }
  }
  void traverse_erasing(const std::vector<size_t>& at, bool all, size_t limit, std::vector<Ent>& out) override {
    auto it = t->begin();
    const auto end = t->end();
    size_t visit = 0, k = 0;
    Ent e;
    while (it != end) {
      if (out.size() >= limit) return;
      ent(it->first, it->second, e);
      out.push_back(e);
      bool er = all;
      if (k < at.size() && at[k] == visit) { er = true; k++; }
      if (er) t->erase_advance(it);
      else ++it;
      visit++;
    }
  }
  bool erase(const int64_t* c, int64_t v) override { return t->erase(mk(c), Tracked(v)); }
  bool exists_pt(const int64_t* c) override { return t->exists(mk(c)); }
  void at(const int64_t* c, Ent& out) override {
    Pt p = mk(c);
    const Tracked& v = t->at(p);
    ent(p, v, out);
  }
  void within(const int64_t* lo, const int64_t* hi, std::vector<Ent>& out) override {
    auto got = t->within(mk(lo), mk(hi));
    Ent e;
    out.reserve(got.size());
    for (auto& x : got) {
      ent(x.first, x.second, e);
      out.push_back(e);
    }
  }
  bool exists_box(const int64_t* lo, const int64_t* hi) override { return t->exists(mk(lo), mk(hi)); }
  bool begin_is_end() override { return t->begin() == t->end() && !(t->begin() != t->end()); }
  size_t white_depth() override {
    size_t best = 0;
    std::vector<std::pair<const Node*, size_t>> todo;
    if (t->root) todo.emplace_back(t->root, 1);
    size_t guard = 0;
    while (!todo.empty() && guard++ < 100000000) {
      auto [n, d] = todo.back();
      todo.pop_back();
      if (d > best) best = d;
      if (n->before) todo.emplace_back(n->before, d + 1);
      if (n->after_or_equal) todo.emplace_back(n->after_or_equal, d + 1);
    }
    return best;
  }
  size_t lib_depth() override { return t->depth(); }
  bool link_chain(const std::vector<int64_t>& c, size_t n, std::string& problem) override {
    int64_t lo[4], hi[4];
    for (int d = 0; d < 4; d++) { lo[d] = INT64_MIN; hi[d] = INT64_MAX; }
    Node* prev = nullptr;
    const int64_t* prevc = nullptr;
    for (size_t i = 0; i < n; i++) {
      const int64_t* p = &c[i * (size_t)D];
      for (int d = 0; d < D; d++)
        if (p[d] < lo[d] || !(p[d] < hi[d])) {
          problem = vf::fmt("entry #%zu leaves the path of the previous entries on axis %d", i, d);
          return false;
        }
      Node* nd = new Node(mk(p), Tracked((int64_t)i));
      if (!prev) {
        t->root = nd;
      } else {
        size_t dim = prev->dim;
        nd->dim = (dim + 1) % (size_t)D;
        nd->parent = prev;
        if (p[dim] < prevc[dim]) { prev->before = nd; hi[dim] = prevc[dim]; }
        else { prev->after_or_equal = nd; lo[dim] = prevc[dim]; }
      }
      t->node_count++;
      prev = nd;
      prevc = p;
    }
    return true;
  }
  uint64_t preorder_digest() override {
    uint64_t h = 0xcbf29ce484222325ull;
    auto mix = [&](uint64_t v) { h = (h ^ v) * 1099511628211ull; h ^= h >> 29; };
    std::vector<const Node*> todo;
    if (t->root) todo.push_back(t->root);
    mix(t->node_count);
    size_t guard = 0;
    while (!todo.empty() && guard++ < 100000000) {
      const Node* n = todo.back();
      todo.pop_back();
      for (int d = 0; d < D; d++) mix((uint64_t)back(PT<Pt>::get(n->pt, d)));
      mix((uint64_t)n->value.v);
      mix(n->dim * 4 + (n->before ? 2 : 0) + (n->after_or_equal ? 1 : 0));
      mix((n->before && n->before->parent != n) || (n->after_or_equal && n->after_or_equal->parent != n) ? 77 : 5);
      if (n->after_or_equal) todo.push_back(n->after_or_equal);
      if (n->before) todo.push_back(n->before);
    }
    return h;
  }
};

// worlds defined in the other translation units (one KDTree instantiation costs seconds of compile time)
TreeIf* make_world_tu2(int k);
TreeIf* make_world_tu3(int k);

}  // namespace c13chain
