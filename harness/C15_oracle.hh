// C15_oracle.hh — one API call against one scripted child: set-up, the call in its context, the oracle, clean-up.
// Included once, by C15.cc (after C15_proc.hh and C15_explore.hh).
#pragma once
#include <sys/resource.h>

#include <memory>
#include <unordered_map>

#include "Process.hh"

namespace {

using namespace phosg;
using c15::Outcome;

unsigned char pattern(int stream, int64_t off) { return (unsigned char)((off * 31 + stream * 7 + (off >> 8)) & 0xFF); }
std::string expect_stream(int stream, int64_t n) {
  std::string s((size_t)n, 0);
  for (int64_t i = 0; i < n; i++) s[i] = (char)pattern(stream, i);
  return s;
}
std::string payload_of(size_t n) {
  std::string s(n, 0);
  for (size_t i = 0; i < n; i++) s[i] = (char)((i * 13 + (i >> 9) + 1) & 0xFF);
  return s;
}
uint64_t fnv(const std::string& s) {
  uint64_t h = 1469598103934665603ull;
  for (unsigned char c : s) h = (h ^ c) * 1099511628211ull;
  return h;
}
constexpr int W(int code) { return code << 8; }

enum Api { API_RUN, API_COMM, API_SUB };
enum Variant {
  V_PTRLEN = 1,          // communicate(const void*, size_t, timeout) instead of communicate(const std::string&, timeout)
  V_DEFAULT_ARGS = 2,    // run_process called with its trailing arguments defaulted (check = true, no timeout)
  V_CWD_ENV = 4,         // cwd and env given: the child side chdir()s and uses execve
  V_STDIN_DEVNULL = 8,   // Subprocess(cmd, <fd of /dev/null>, -1, -1): no stdin pipe
  V_STDERR_DEVNULL = 16, // Subprocess(cmd, -1, -1, <fd of /dev/null>): no stderr pipe
  V_FORK_FAILS = 32,     // environment: fork() fails (don't-care class: executed, not compared)
};
enum CallCtx { CTX_PLAIN, CTX_IN_CATCH, CTX_UNWINDING };
const char* const kCtxName[3] = {"plain", "inside a catch handler", "in a destructor during stack unwinding"};

struct Life;
struct Call {
  Api api = API_RUN;
  bool has_stdin = false;
  size_t payload = 0;
  std::vector<Step> script;
  bool check = false;
  uint64_t timeout = 0;   // run_process timeout / communicate deadline (virtual microseconds), 0 none
  bool reads_to_eof = false;
  int want_status = 0;    // wait status the script produces (-1: the child hangs and is ended by the timeout)
  int variant = 0;
  int ctx = CTX_PLAIN;
  int closed_fds = 0;     // environment: bit i set = the caller's descriptor i (0/1/2) is closed when the call is made
  void (*body)(Life&) = nullptr;  // API_SUB: a fixed program of Subprocess operations
  const char* body_name = "";
  // round 5 -- environment: signals (handlers installed without SA_RESTART) arrive in the calling process at fixed
  // virtual times: the first one sig_phase us after the call began, then one every sig_period us (0: only that one)
  bool sig_mode = false;
  uint64_t sig_period = 0, sig_phase = 0;
  // the child ends on its own at about the time the timeout expires: the call may return the child's own results or
  // end it after the timeout has expired, both are what the statement says
  bool may_time_out = false;
};

// "A timeout ends the child": the child must not be still running this long (virtual us) after the timeout expired.
// HEAD ends it within one poll interval (1 s; after another 5 s + 1 s with SIGKILL when the child ignores SIGTERM) plus
// the cost of its system calls; the demand is deliberately much weaker than that (the statement names no granularity).
constexpr uint64_t TIMEOUT_SLACK = 20000000;
uint64_t max_child_time(const std::vector<Step>& sc) {
  uint64_t m = 0;
  for (auto& st : sc) if (st.k == ST_T) m = std::max<uint64_t>(m, (uint64_t)st.arg);
  return m;
}
bool sane_timeout(uint64_t t) { return t && t < (1ull << 40); }
// cap on the parent's system calls in one call: 6000, plus 8 per signal that can arrive before the call has to be over
size_t syscall_cap_for(const Call& c) {
  if (!c.sig_mode || !c.sig_period) return SYSCALL_CAP;
  uint64_t horizon = (sane_timeout(c.timeout) ? c.timeout : 0) + max_child_time(c.script) + TIMEOUT_SLACK + 2 * c.sig_period;
  return SYSCALL_CAP + 8 * (size_t)(horizon / c.sig_period + 1);
}

std::string describe_script(const std::vector<Step>& sc) {
  std::string s;
  size_t i = 0;
  while (i < sc.size()) {
    // compress "R(n) W1(n)" repetitions
    size_t rep = 0;
    if (i + 1 < sc.size() && sc[i].k == ST_R && sc[i + 1].k == ST_W1) {
      while (i + 2 * rep + 1 < sc.size() && sc[i + 2 * rep].k == ST_R && sc[i + 2 * rep + 1].k == ST_W1 && sc[i + 2 * rep].arg == sc[i].arg && sc[i + 2 * rep + 1].arg == sc[i + 1].arg) rep++;
    }
    if (rep >= 3) { s += vf::fmt("{R(%lld) W1(%lld)}x%zu ", (long long)sc[i].arg, (long long)sc[i + 1].arg, rep); i += 2 * rep; continue; }
    // compress "T(t) W1(n) T(t+q) W1(n) ..." (a child that writes n bytes every q us)
    if (i + 3 < sc.size() && sc[i].k == ST_T && sc[i + 1].k == ST_W1 && sc[i + 2].k == ST_T) {
      int64_t q = sc[i + 2].arg - sc[i].arg;
      size_t reps = 1;
      while (i + 2 * reps + 1 < sc.size() && sc[i + 2 * reps].k == ST_T && sc[i + 2 * reps + 1].k == ST_W1 && sc[i + 2 * reps].arg == sc[i].arg + (int64_t)reps * q && sc[i + 2 * reps + 1].arg == sc[i + 1].arg) reps++;
      if (reps >= 3) { s += vf::fmt("{T(next multiple of %lld us) W1(%lld)}x%zu (T(%lld us)..T(%lld us)) ", (long long)q, (long long)sc[i + 1].arg, reps, (long long)sc[i].arg, (long long)(sc[i].arg + (int64_t)(reps - 1) * q)); i += 2 * reps; continue; }
    }
    auto& st = sc[i++];
    switch (st.k) {
      case ST_R: s += vf::fmt("R(%lld) ", (long long)st.arg); break;
      case ST_RALL: s += "R*EOF "; break;
      case ST_W1: s += vf::fmt("W1(%lld) ", (long long)st.arg); break;
      case ST_W2: s += vf::fmt("W2(%lld) ", (long long)st.arg); break;
      case ST_C: s += vf::fmt("C%lld ", (long long)st.arg); break;
      case ST_X: s += vf::fmt("X(%lld) ", (long long)st.arg); break;
      case ST_K: s += vf::fmt("K(%lld) ", (long long)st.arg); break;
      case ST_Z: s += "Z "; break;
      case ST_P: s += "P "; break;
      case ST_I: s += vf::fmt("I(%lld) ", (long long)st.arg); break;
      case ST_T: s += vf::fmt("T(%lld us) ", (long long)st.arg); break;
    }
  }
  return s;
}

std::string describe_call(const Call& c) {
  const char* api = c.api == API_RUN ? "run_process" : c.api == API_COMM ? "Subprocess+communicate" : c.body_name;
  std::string s = vf::fmt("%s(", api);
  if (c.api != API_SUB) s += c.has_stdin || c.api == API_COMM ? vf::fmt("payload %zu", c.payload) : std::string("stdin_data=null");
  else s += vf::fmt("payload %zu", c.payload);
  if (c.api == API_RUN) s += vf::fmt(", check=%d", (int)c.check);
  if (c.timeout) s += vf::fmt(", timeout/deadline=%llu us(virtual)", (unsigned long long)c.timeout);
  if (c.variant & V_PTRLEN) s += ", (ptr,len) overload";
  if (c.variant & V_DEFAULT_ARGS) s += ", trailing arguments defaulted";
  if (c.variant & V_CWD_ENV) s += ", cwd+env given";
  if (c.variant & V_STDIN_DEVNULL) s += ", stdin_fd=/dev/null";
  if (c.variant & V_STDERR_DEVNULL) s += ", stderr_fd=/dev/null";
  if (c.variant & V_FORK_FAILS) s += ", fork() fails";
  if (c.ctx) s += std::string(", called ") + kCtxName[c.ctx];
  if (c.closed_fds) s += std::string(", caller's descriptors {") + (c.closed_fds & 1 ? "0 " : "") + (c.closed_fds & 2 ? "1 " : "") + (c.closed_fds & 4 ? "2 " : "") + "} closed";
  if (c.sig_mode && c.sig_period) s += vf::fmt(", signals in the caller every %llu us, the first %llu us after the call began", (unsigned long long)c.sig_period, (unsigned long long)c.sig_phase);
  else if (c.sig_mode) s += vf::fmt(", one signal in the caller %llu us after the call began", (unsigned long long)c.sig_phase);
  s += ") child script [ " + describe_script(c.script) + "]";
  return s;
}

// ---- Subprocess life-cycle programs (API_SUB) ------------------------------------------------------------------
struct Life {
  const std::string& vchild;
  Outcome& o;
  std::string payload;
  void expect(bool ok, const char* key, const std::string& msg) {
    if (!ok && o.fail.empty()) { o.key = key; o.fail = msg; }
  }
  int status_now() const { return P.alive ? -1 : P.term_status; }  // what wait(true) has to report right now
  std::vector<std::string> cmd() const { return {vchild}; }
};

void life_default_only(Life& L) {
  { Subprocess s; L.expect(s.pid() == -1, "Subprocess::pid:wrong", vf::fmt("default-constructed pid() = %d", (int)s.pid())); }
  L.expect(P.forks == 0, "Subprocess:default-forked", "a default-constructed Subprocess forked");
}
void life_destroy_running(Life& L) {
  Subprocess sp(L.cmd());
  L.expect(sp.pid() == P.pid && sp.pid() > 0, "Subprocess::pid:wrong", vf::fmt("pid() = %d, fork returned %d", (int)sp.pid(), (int)P.pid));
  L.expect(sp.stdin_fd() >= 0 && sp.stdout_fd() >= 0 && sp.stderr_fd() >= 0 && P.owned.count(sp.stdin_fd()) && P.owned.count(sp.stdout_fd()) && P.owned.count(sp.stderr_fd()),
      "Subprocess:fd-accessors-wrong", vf::fmt("stdin_fd/stdout_fd/stderr_fd = %d/%d/%d are not the parent's pipe ends", sp.stdin_fd(), sp.stdout_fd(), sp.stderr_fd()));
}
void life_kill_then_wait(Life& L) {
  Subprocess sp(L.cmd());
  sp.kill(SIGTERM);
  int a = sp.wait();
  L.expect(a == SIGTERM, "Subprocess::wait:wrong-status", vf::fmt("wait() after kill(SIGTERM) = %d, expected %d", a, SIGTERM));
  int b = sp.wait(true), c = sp.wait();
  L.expect(b == SIGTERM && c == SIGTERM, "Subprocess::wait:status-not-cached", vf::fmt("second/third wait = %d/%d, expected %d", b, c, SIGTERM));
}
void life_kill_then_destroy(Life& L) {
  Subprocess sp(L.cmd());
  sp.kill(SIGKILL);
}
void life_poll_wait(Life& L) {
  Subprocess sp(L.cmd());
  for (int i = 0; i < 4; i++) {
    int got = sp.wait(true);
    int want = L.status_now();
    L.expect(got == want, "Subprocess::wait:wrong-poll-result", vf::fmt("wait(true) call %d = %d, expected %d (-1 = still running)", i + 1, got, want));
  }
  int fin = sp.wait();
  L.expect(fin == P.term_status && !P.alive, "Subprocess::wait:wrong-status", vf::fmt("wait() = %d, the child's wait status is %d", fin, P.term_status));
  int again = sp.wait(true);
  L.expect(again == fin, "Subprocess::wait:status-not-cached", vf::fmt("wait(true) after wait() = %d, expected %d", again, fin));
}
void life_close_stdin_wait(Life& L) {
  Subprocess sp(L.cmd());
  close(sp.stdin_fd());
  int st = sp.wait();
  L.expect(st == P.term_status && !P.alive, "Subprocess::wait:wrong-status", vf::fmt("wait() = %d, the child's wait status is %d", st, P.term_status));
}
void life_move_ctor(Life& L) {
  auto a = std::make_unique<Subprocess>(L.cmd());
  pid_t pid = a->pid();
  int in = a->stdin_fd(), out = a->stdout_fd(), err = a->stderr_fd();
  Subprocess b(std::move(*a));
  L.expect(a->pid() == -1 && b.pid() == pid && b.stdin_fd() == in && b.stdout_fd() == out && b.stderr_fd() == err, "Subprocess:move-lost-state",
      vf::fmt("after move construction: source pid %d, target pid/fds %d/%d/%d/%d, expected -1 and %d/%d/%d/%d", (int)a->pid(), (int)b.pid(), b.stdin_fd(), b.stdout_fd(), b.stderr_fd(), (int)pid, in, out, err));
  a.reset();
  L.expect(P.kills.empty() && child_state(pid) != 'g', "Subprocess:moved-from-touched-child", "destroying the moved-from object killed or reaped the child");
  std::string got = b.communicate(L.payload, 0);
  std::string want = expect_stream(1, P.out_total[1]);
  L.expect(got == want, "communicate:stdout-wrong", vf::fmt("communicate on the move-constructed object returned %zu bytes, the child wrote %zu", got.size(), want.size()));
  int st = b.wait();
  L.expect(st == P.term_status && !P.alive, "Subprocess::wait:wrong-status", vf::fmt("wait() = %d, the child's wait status is %d", st, P.term_status));
}
void life_move_assign(Life& L) {
  Subprocess c;
  pid_t pid;
  {
    Subprocess a(L.cmd());
    pid = a.pid();
    int in = a.stdin_fd(), out = a.stdout_fd(), err = a.stderr_fd();
    c = std::move(a);
    L.expect(a.pid() == -1 && c.pid() == pid && c.stdin_fd() == in && c.stdout_fd() == out && c.stderr_fd() == err, "Subprocess:move-lost-state",
        vf::fmt("after move assignment: source pid %d, target pid/fds %d/%d/%d/%d, expected -1 and %d/%d/%d/%d", (int)a.pid(), (int)c.pid(), c.stdin_fd(), c.stdout_fd(), c.stderr_fd(), (int)pid, in, out, err));
  }
  L.expect(P.kills.empty() && child_state(pid) != 'g', "Subprocess:moved-from-touched-child", "destroying the moved-from object killed or reaped the child");
  std::string got = c.communicate(L.payload.data(), L.payload.size(), 0);
  std::string want = expect_stream(1, P.out_total[1]);
  L.expect(got == want, "communicate:stdout-wrong", vf::fmt("communicate on the move-assigned object returned %zu bytes, the child wrote %zu", got.size(), want.size()));
  int st = c.wait();
  L.expect(st == P.term_status && !P.alive, "Subprocess::wait:wrong-status", vf::fmt("wait() = %d, the child's wait status is %d", st, P.term_status));
}

// vacuity counters of the round-5 dimension (summed per case by the section)
struct SigStats { uint64_t calls_with_signals = 0, calls_interrupted = 0, eintr_answers = 0, max_eintr_in_one_call = 0, ended_by_timeout = 0, ended_on_their_own = 0; } g_sig_stats;

// ---- one call ---------------------------------------------------------------------------------------------------
struct AtUnwind {
  std::function<void()> f;
  ~AtUnwind() { f(); }
};

// Runs one call with its own scripted child.
Outcome run_call(const Call& sc, const std::string& vchild, int ambient_errno) {
  Outcome o;
  int cp[2], ap[2];
  if (__real_pipe(cp) || __real_pipe(ap)) { o.fail = "ENGINE: pipe"; o.key = "engine"; return o; }
  // child ends at fixed numbers (inherited across exec); parent ends close-on-exec
  dup2(cp[0], CMD_FD);
  dup2(ap[1], ACK_FD);
  __real_close(cp[0]);
  __real_close(ap[1]);
  fcntl(cp[1], F_SETFD, FD_CLOEXEC);
  fcntl(ap[0], F_SETFD, FD_CLOEXEC);
  int devnull = -1;
  if (sc.variant & (V_STDIN_DEVNULL | V_STDERR_DEVNULL)) devnull = open("/dev/null", O_RDWR | O_CLOEXEC);
  P = Proc();
  P.cmd_w = cp[1];
  P.ack_r = ap[0];
  P.script = sc.script;
  P.fail_fork = (sc.variant & V_FORK_FAILS) != 0;
  P.eintr_rw = sc.api == API_RUN;
  P.timeout_hint = sc.timeout;
  P.sig_mode = sc.sig_mode;
  P.sig_period = sc.sig_period;
  P.sig_phase = sc.sig_phase;
  P.syscall_cap = syscall_cap_for(sc);
  // every system call costs 1 us, so the allowance contains the cap on system calls as well
  if (sane_timeout(sc.timeout) && sc.api != API_SUB) P.overrun_limit = sc.timeout + TIMEOUT_SLACK + 2 * sc.sig_period + P.syscall_cap;
  g_bad_kill = 0;
  __real_gettimeofday(&P.base, nullptr);
  std::string payload = payload_of(sc.payload);
  std::string cwd = "/";
  std::unordered_map<std::string, std::string> envmap = {{"C15_VAR", "x"}};
  // environment: the caller's own descriptors 0/1/2 (kept at high numbers meanwhile and put back afterwards)
  int saved_low[3] = {-1, -1, -1};
  for (int fd = 0; fd < 3; fd++) if (sc.closed_fds & (1 << fd)) {
    saved_low[fd] = fcntl(fd, F_DUPFD_CLOEXEC, 300);
    if (saved_low[fd] >= 0) __real_close(fd);
  }
  std::set<int> before = list_fds();
  SubprocessResult res;
  std::string comm_out, threw, aborted;
  int comm_status = -2;
  bool returned = false;
  auto invoke = [&] {
    try {
      errno = ambient_errno;
      if (sc.api == API_RUN) {
        bool ce = (sc.variant & V_CWD_ENV) != 0;
        if ((sc.variant & V_DEFAULT_ARGS) && !sc.has_stdin) res = run_process({vchild});
        else if (sc.variant & V_DEFAULT_ARGS) res = run_process({vchild}, &payload);
        else res = run_process({vchild}, sc.has_stdin ? &payload : nullptr, sc.check, ce ? &cwd : nullptr, ce ? &envmap : nullptr, sc.timeout);
      } else if (sc.api == API_COMM) {
        Subprocess sp({vchild}, (sc.variant & V_STDIN_DEVNULL) ? devnull : -1, -1, (sc.variant & V_STDERR_DEVNULL) ? devnull : -1);
        if (sc.variant & V_PTRLEN) comm_out = sp.communicate(payload.data(), payload.size(), sc.timeout);
        else comm_out = sp.communicate(payload, sc.timeout);
        comm_status = sp.wait();
      } else {
        Life L{vchild, o, payload};
        sc.body(L);
      }
      returned = true;
    } catch (const ProcAbort& a) {
      aborted = a.why;
    } catch (const std::exception& e) {
      threw = e.what();
    } catch (...) {
      threw = "(an exception not derived from std::exception)";
    }
  };
  P.active = true;
  if (sc.ctx == CTX_PLAIN) invoke();
  else if (sc.ctx == CTX_IN_CATCH) {
    try { throw std::logic_error("C15: another exception is being handled"); } catch (const std::logic_error&) { invoke(); }
  } else {
    try {
      AtUnwind u{invoke};
      throw std::logic_error("C15: another exception is propagating");
    } catch (const std::logic_error&) {}
  }
  pid_t pid = P.pid;
  size_t steps_done = P.pc;
  P.active = false;
  if (sc.sig_mode) {
    g_sig_stats.calls_with_signals++;
    g_sig_stats.calls_interrupted += P.sig_eintr != 0;
    g_sig_stats.eintr_answers += P.sig_eintr;
    g_sig_stats.max_eintr_in_one_call = std::max(g_sig_stats.max_eintr_in_one_call, P.sig_eintr);
    if (P.killed_by_parent) g_sig_stats.ended_by_timeout++;
    else if (!P.alive) g_sig_stats.ended_on_their_own++;
  }
  // ---- oracle ----
  auto finish = [&](const std::string& key, const std::string& why) {
    if (o.fail.empty()) { o.key = key; o.fail = why; }
  };
  const char* api = sc.api == API_RUN ? "run_process" : sc.api == API_COMM ? "communicate" : "Subprocess";
  bool dont_care = (sc.variant & V_FORK_FAILS) != 0;
  if (!aborted.empty()) {
    o = Outcome();  // an aborted execution (deadlock, livelock, engine) overrides whatever a life-cycle program noted before
    finish(std::string(api) + ":" + (aborted.rfind("ENGINE", 0) == 0 ? "engine" : aborted.substr(0, aborted.find(':'))), aborted);
  } else if (dont_care) {
    o = Outcome();
    if (returned) finish("run_process:returned-although-fork-failed", "fork() failed but run_process returned normally");
  } else {
    if (g_bad_kill) finish(std::string(api) + ":kill-wrong-pid", vf::fmt("kill() was aimed at pid %d, which is not the child (%d); the harness did not deliver it", (int)g_bad_kill_pid, (int)pid));
    // the child must have started with all three standard streams (the Subprocess constructor sets them up)
    if (P.fdmask >= 0 && P.fdmask != 7) {
      int missing = !(P.fdmask & 1) ? 0 : !(P.fdmask & 2) ? 1 : 2;
      static const char* const nm[3] = {"stdin", "stdout", "stderr"};
      finish(std::string(api) + ":child-" + nm[missing] + "-missing", vf::fmt("the child started without an open %s (descriptors open in the child at start: %s%s%s): %s", nm[missing], P.fdmask & 1 ? "0 " : "", P.fdmask & 2 ? "1 " : "", P.fdmask & 4 ? "2 " : "",
          missing == 0 ? "the payload cannot be delivered" : "whatever it writes there is lost"));
    }
    // every system call of the parent costs 1 virtual us (at most SYSCALL_CAP per call): a timeout that small may
    // expire although the child does not hang; ending the child after the timeout has expired is then legitimate
    bool tiny_timeout = sc.timeout && (sc.timeout <= SYSCALL_CAP || sc.may_time_out);
    bool comm_timed_out = threw.find("timed out") != std::string::npos;
    bool ended_by_timeout = sc.want_status == -1 || (tiny_timeout && (sc.api == API_RUN ? P.killed_by_parent : sc.api == API_COMM && comm_timed_out && P.vclock >= sc.timeout));
    bool script_done = steps_done >= sc.script.size() || ended_by_timeout;
    int want = ended_by_timeout ? (P.ignores_term ? SIGKILL : SIGTERM) : sc.want_status;
    // a kill while the child was still running is legitimate only after the timeout has expired (virtual clock)
    auto check_kills = [&] {
      for (auto& k : P.kills) {
        if (!k.child_was_alive) continue;
        if (!sc.timeout) { finish(std::string(api) + ":killed-healthy-child", vf::fmt("sent signal %d to the running child although no timeout was given", k.sig)); break; }
        if (k.vclock < sc.timeout) { finish(std::string(api) + ":killed-before-timeout", vf::fmt("sent signal %d to the running child after %llu us (virtual), the timeout is %llu us", k.sig, (unsigned long long)k.vclock, (unsigned long long)sc.timeout)); break; }
      }
    };
    if (sc.api == API_RUN) {
      bool check = sc.check || (sc.variant & V_DEFAULT_ARGS);
      bool must_throw = check && want != 0;
      if (!threw.empty() && !must_throw) finish("run_process:unexpected-exception", "threw: " + threw.substr(0, 200));
      else if (threw.empty() && must_throw) finish("run_process:check-did-not-throw", vf::fmt("check=true and the child's wait status is %d, but no exception", want));
      check_kills();
      if (returned) {
        if (!script_done) finish("run_process:returned-before-child-finished", vf::fmt("returned after %zu of %zu child steps", steps_done, sc.script.size()));
        if (ended_by_timeout && !P.killed_by_parent) finish("run_process:timeout-did-not-end-child", "returned without having ended the hanging child");
        if (res.exit_status != want) finish("run_process:wrong-exit-status", vf::fmt("exit_status=%d, the child's wait status is %d", res.exit_status, want));
        std::string w1 = expect_stream(1, P.out_total[1]), w2 = expect_stream(2, P.out_total[2]);
        if (res.stdout_contents != w1) finish(res.stdout_contents.size() < w1.size() ? "run_process:stdout-truncated" : "run_process:stdout-wrong", vf::fmt("stdout_contents has %zu bytes, the child wrote %zu to stdout%s", res.stdout_contents.size(), w1.size(), res.stdout_contents.size() == w1.size() ? " (content differs)" : ""));
        if (res.stderr_contents != w2) finish(res.stderr_contents.size() < w2.size() ? "run_process:stderr-truncated" : "run_process:stderr-wrong", vf::fmt("stderr_contents has %zu bytes, the child wrote %zu to stderr%s", res.stderr_contents.size(), w2.size(), res.stderr_contents.size() == w2.size() ? " (content differs)" : ""));
      }
      if ((returned || !threw.empty()) && sc.reads_to_eof && sc.has_stdin && !ended_by_timeout) {
        if (!P.in_eof) finish("run_process:stdin-not-closed", "the child read to end of input but never saw EOF on stdin");
        else if ((size_t)P.in_total != payload.size() || P.in_hash != fnv(payload)) finish("run_process:payload-not-delivered", vf::fmt("the child received %lld bytes of the %zu-byte payload%s", (long long)P.in_total, payload.size(), (size_t)P.in_total == payload.size() ? " (content differs)" : ""));
      }
    } else if (sc.api == API_COMM) {
      bool timed_out = comm_timed_out;
      if (!threw.empty() && !(ended_by_timeout && timed_out)) finish(timed_out ? "communicate:spurious-timeout" : "communicate:unexpected-exception", "threw: " + threw.substr(0, 200) + vf::fmt(" (virtual time elapsed: %llu us, deadline %llu us)", (unsigned long long)P.vclock, (unsigned long long)sc.timeout));
      check_kills();
      if (returned && ended_by_timeout) finish("communicate:returned-before-child-finished", "returned normally although the child never finished");
      if (returned && !ended_by_timeout) {
        std::string w1 = expect_stream(1, P.out_total[1]);
        if (!script_done) finish("communicate:returned-before-child-finished", vf::fmt("returned after %zu of %zu child steps", steps_done, sc.script.size()));
        if (comm_out != w1) finish(comm_out.size() < w1.size() ? "communicate:stdout-truncated" : "communicate:stdout-wrong", vf::fmt("communicate returned %zu bytes, the child wrote %zu to stdout%s", comm_out.size(), w1.size(), comm_out.size() == w1.size() ? " (content differs)" : ""));
        if (comm_status != want) finish("communicate:wrong-exit-status", vf::fmt("wait() = %d, the child's wait status is %d", comm_status, want));
        if (sc.reads_to_eof && !(sc.variant & V_STDIN_DEVNULL) && ((size_t)P.in_total != payload.size() || P.in_hash != fnv(payload) || !P.in_eof)) finish("communicate:payload-not-delivered", vf::fmt("the child received %lld bytes of the %zu-byte payload, eof=%d", (long long)P.in_total, payload.size(), (int)P.in_eof));
      }
    } else {
      if (!threw.empty()) finish("Subprocess:unexpected-exception", std::string(sc.body_name) + " threw: " + threw.substr(0, 200));
    }
    // reaped?  (every Subprocess object is gone by now)
    if (pid > 0 && (returned || !threw.empty())) {
      char st = child_state(pid);
      if (st != 'g') finish(std::string(api) + ":child-not-reaped", st == 'r' ? "the child is still running after the call" : "the child was a zombie after the call (not waited for)");
    }
    // descriptors
    if (sc.api == API_RUN && (returned || !threw.empty())) {
      std::set<int> after = list_fds();
      if (after != before) {
        std::string extra;
        for (int fd : after) if (!before.count(fd)) extra += std::to_string(fd) + " ";
        for (int fd : before) if (!after.count(fd)) extra += "(closed: " + std::to_string(fd) + ") ";
        finish("run_process:descriptor-leak", "descriptor table differs after the call: " + extra);
      }
    }
  }
  if (!o.fail.empty() && o.key.find("engine") == std::string::npos) {
    // the environment class of the failing execution is part of the key (a different defect gets a different key)
    if (sc.timeout >= (1ull << 62)) o.key += "+huge-timeout";
    if (sc.sig_mode) o.key += "+signals";
    else for (int s : {(int)EI_READ, (int)EI_WRITE, (int)EI_WAITPID, (int)EI_POLL}) if (P.eintr_given[s]) { o.key += std::string("+eintr-") + kEintrName[s]; break; }
    if (sc.closed_fds) o.key += "+low-fds-closed";
    if (sc.ctx) o.fail += std::string(" [called ") + kCtxName[sc.ctx] + "]";
  }
  // ---- cleanup (whatever happened) ----
  if (pid > 0) {
    __real_kill(pid, SIGKILL);
    int st;
    while (__real_waitpid(pid, &st, 0) < 0 && errno == EINTR) {}
  }
  __real_close(CMD_FD);
  __real_close(ACK_FD);
  __real_close(cp[1]);
  __real_close(ap[0]);
  if (devnull >= 0) __real_close(devnull);
  for (int fd : list_fds()) if (!before.count(fd)) __real_close(fd);
  for (int fd = 0; fd < 3; fd++) if (saved_low[fd] >= 0) { dup2(saved_low[fd], fd); __real_close(saved_low[fd]); }
  return o;
}

}  // namespace
