// C13 round 2 — boundary coordinate pairs: three dimensions (see C13_pairs.hh).
#include "C13_pairs.hh"
using namespace c13;
VF_SECTION(pairs_3d, 16, 16, 120) {
  bool th = r.thorough();
  (void)th;
  std::string b;
  std::vector<int> k3 = th ? std::vector<int>{} : std::vector<int>{0, 1, 7, 8, 15, 16, 31, 32, 33, 52, 53, 62, 63};
  run_pairs<Vector3<int64_t>>(r, boundary_alphabet<int64_t>(k3), 2, b);
  run_pairs<Vector3<double>>(r, boundary_alphabet<double>(), th ? 4 : 2, b);
  r.bound = "every ordered pair (a,b) of a boundary alphabet (quick: k in {0,1,7,8,15,16,31,32,33,52,53,62,63}; thorough: every k) as the two coordinate values of a tree holding (a,a,a), the 3 points with one b, (b,b,b); all 8 probe points, all 64 boxes: " + b;
}
