// C13 round 2 — operation sequences on one object: Vector4, floating-point and 1-D coordinates (see C13_seq.hh).
#include "C13_seq.hh"

using namespace c13;

namespace {
using V4 = Vector4<int64_t>;
}  // namespace

// Vector4 (never instantiated by the repository's tests)
VF_SECTION(seq_v4, 16, 16, 120) {
  SeqWorld<V4, int64_t> w;
  w.name = "Vector4<int64_t>";
  w.entries = {{V4(0, 0, 0, 0), 0}, {V4(0, 0, 1, 1), 0}, {V4(1, 1, 0, 0), 0}, {V4(1, 0, 1, 0), 1}};
  w.probe_vals = {0, 1};
  w.corner_vals = {0, 1, 2};
  w.box_mode = 2;
  run_world(r, w, r.thorough() ? 5 : 4, r.thorough() ? 4 : 3);
}

VF_SECTION(seq_double, 16, 16, 120) {
  using P = Vector2<double>;
  SeqWorld<P, int64_t> w;
  w.name = "Vector2<double>";
  w.entries = {{P(-0.5, -0.5), 0}, {P(-0.5, 0.5), 0}, {P(0.5, -0.5), 0}, {P(0.5, 0.5), 1}};
  w.probe_vals = {-0.5, 0.5, 1.5};
  w.corner_vals = {-0.5, 0.5, 1.5};
  run_world(r, w, r.thorough() ? 5 : 4, r.thorough() ? 4 : 3);
}

// one dimension: every node splits on the only axis
VF_SECTION(seq_1d, 16, 16, 120) {
  using P = P1<int64_t>;
  SeqWorld<P, int64_t> w;
  w.name = "1-D points";
  w.entries = {{P(0), 0}, {P(1), 0}, {P(2), 0}, {P(1), 1}};
  w.probe_vals = {0, 1, 2, 3};
  w.corner_vals = {0, 1, 2, 3};
  run_world(r, w, r.thorough() ? 6 : 5, r.thorough() ? 5 : 4);
}
