// C13 round 2 — operation sequences on one object: floating-point and 1-D coordinates, non-trivial value
// types (see C13_seq.hh).
#include "C13_seq.hh"

using namespace c13;

namespace {
template <class Pt, class Val>
void go(vf::Run& r, const SeqWorld<Pt, Val>& w, int La, int Lb) {
  SeqRunner<Pt, Val> s(r, w);
  s.run(La, Lb);
  r.bound = s.bound_text(La, Lb);
}
}  // namespace

VF_SECTION(seq_double, 16, 16, 120) {
  using P = Vector2<double>;
  SeqWorld<P, int64_t> w;
  w.name = "Vector2<double>";
  w.entries = {{P(-0.5, -0.5), 0}, {P(-0.5, 0.5), 0}, {P(0.5, -0.5), 0}, {P(0.5, 0.5), 1}};
  w.probe_vals = {-0.5, 0.5, 1.5};
  w.corner_vals = {-0.5, 0.5, 1.5};
  go(r, w, r.thorough() ? 5 : 4, r.thorough() ? 4 : 3);
}

// one dimension: every node splits on the only axis
VF_SECTION(seq_1d, 16, 16, 120) {
  using P = P1<int64_t>;
  SeqWorld<P, int64_t> w;
  w.name = "1-D points";
  w.entries = {{P(0), 0}, {P(1), 0}, {P(2), 0}, {P(1), 1}};
  w.probe_vals = {0, 1, 2, 3};
  w.corner_vals = {0, 1, 2, 3};
  go(r, w, r.thorough() ? 6 : 5, r.thorough() ? 5 : 4);
}

// heap-allocated values: delete_node moves values between nodes
VF_SECTION(seq_string, 16, 16, 120) {
  using P = Vector2<int64_t>;
  SeqWorld<P, std::string> w;
  w.name = "Vector2<int64_t> with 40-byte string values";
  std::string a(40, 'a'), b(40, 'b');
  w.entries = {{P(0, 0), a}, {P(0, 0), b}, {P(0, 1), a}, {P(1, 0), a}};
  w.probe_vals = {0, 1};
  w.corner_vals = {0, 1, 2};
  go(r, w, r.thorough() ? 5 : 4, r.thorough() ? 4 : 3);
}

// values that count their live instances and remember being moved from; inserted through emplace
VF_SECTION(seq_tracked, 16, 16, 120) {
  using P = Vector2<int64_t>;
  SeqWorld<P, Tracked> w;
  w.name = "Vector2<int64_t> with instance-counting values";
  w.entries = {{P(0, 0), Tracked(1)}, {P(0, 0), Tracked(2)}, {P(1, 0), Tracked(1)}, {P(0, 1), Tracked(1)}};
  w.probe_vals = {0, 1};
  w.corner_vals = {0, 1, 2};
  w.emplace = true;
  go(r, w, r.thorough() ? 5 : 4, r.thorough() ? 4 : 3);
}
