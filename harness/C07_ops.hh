// C07 — generic operation layer on top of C07_model.hh: per-pixel models of fill_rect, text, lines; an operation
// object (real call + model step) used for call histories, non-initial object states and execution contexts.
#pragma once
#include <functional>
#include <memory>

#include "C07_model.hh"
#include "ImageTextFont.hh"  // the library's 5x7 glyph table (data, not code): the text model paints the same glyphs

namespace {

// ---------------------------------------------------------------------------------------------
// fill rule shared by fill_rect and the text background boxes: a == 0xFF stores the colour (Image.hh: drawing functions
// set alpha to the given value), any other alpha blends with weight a/0xFF (Image.cc).  Exact for channel widths <= 32.
inline void m_fill_px(Model& m, ll x, ll y, uint64_t r, uint64_t g, uint64_t b, uint64_t a) {
  if (!m.inside(x, y)) return;
  if (a == 0xFF) { m.write(x, y, r, g, b, a); return; }
  Px d = m.read(x, y);
  m.write(x, y, (a * r + (0xFF - a) * d.c[0]) / 0xFF, (a * g + (0xFF - a) * d.c[1]) / 0xFF, (a * b + (0xFF - a) * d.c[2]) / 0xFF, (a * a + (0xFF - a) * d.c[3]) / 0xFF);
}
inline void m_fill_rect(Model& m, ll x, ll y, ll w, ll h, uint64_t r, uint64_t g, uint64_t b, uint64_t a) {
  for (ll dy = 0; dy < m.h; dy++)
    for (ll dx = 0; dx < m.w; dx++) {
      if (dx - x < 0 || dx - x >= w || dy - y < 0 || dy - y >= h) continue;
      m_fill_px(m, dx, dy, r, g, b, a);
    }
}

// ---------------------------------------------------------------------------------------------
// text: layout rules transcribed from draw_text_v (6-pixel advance, 8-pixel line height, 6x9 background box one pixel
// up/left of the glyph cell, a 1x9 closing column at the end of every line, '\r' ignored, bytes outside 0x20..0x7F drawn
// as glyph 0x7F); each glyph/background pixel is painted iff it lies inside the canvas.
struct TextArgs {
  ll x = 0, y = 0;
  uint64_t r = 0, g = 0, b = 0, a = 0xFF, br = 0, bg = 0, bb = 0, ba = 0;
  string s;
};
inline void m_text_box(Model& m, ll x, ll y, ll w, ll h, const TextArgs& t) {
  for (ll yy = 0; yy < h; yy++)
    for (ll xx = 0; xx < w; xx++) m_fill_px(m, x + xx, y + yy, t.br, t.bg, t.bb, t.ba);
}
inline void m_draw_text(Model& m, const TextArgs& t) {
  ll xp = t.x, yp = t.y;
  for (unsigned char ch : t.s) {
    if (ch == '\r') continue;
    if (ch == '\n') {
      if (t.ba) m_text_box(m, xp - 1, yp - 1, 1, 9, t);
      yp += 8;
      xp = t.x;
      continue;
    }
    int gi = (ch < 0x20 || ch > 0x7F) ? 0x7F - 0x20 : ch - 0x20;
    if (t.ba) m_text_box(m, xp - 1, yp - 1, 6, 9, t);
    for (ll yy = 0; yy < 7; yy++)
      for (ll xx = 0; xx < 5; xx++)
        if (font[gi][yy * 5 + xx] && m.inside(xp + xx, yp + yy)) m.write(xp + xx, yp + yy, t.r, t.g, t.b, t.a);
    xp += 6;
  }
  if (t.ba) m_text_box(m, xp - 1, yp - 1, 1, 9, t);  // (with ba == 0 the library blends with weight 0: no change)
}
inline uint32_t pack8(uint64_t r, uint64_t g, uint64_t b, uint64_t a) { return (uint32_t)(((r & 0xFF) << 24) | ((g & 0xFF) << 16) | ((b & 0xFF) << 8) | (a & 0xFF)); }
// the five public overloads; forms 0 and 2 also pass width/height out-pointers (their values are not part of the statement)
const int NTEXTFORMS = 6;
const char* text_form_name[NTEXTFORMS] = {"draw_text(x,y,&w,&h,r,g,b,a,br,bg,bb,ba,fmt,...)", "draw_text(x,y,r,g,b,a,br,bg,bb,ba,fmt,...)", "draw_text(x,y,&w,&h,color,background,fmt,...)",
    "draw_text(x,y,color,background,fmt,...)", "draw_text(x,y,color,fmt,...)", "draw_text(x,y,nullptr,&h,r,g,b,a,br,bg,bb,ba,fmt,...)"};
inline bool text_form_has_background(int form) { return form != 4; }
inline void real_draw_text(Image& img, int form, const TextArgs& t, ll* ow = nullptr, ll* oh = nullptr) {
  ssize_t w = -12345, h = -12345;
  const char* s = t.s.c_str();
  switch (form) {
    case 0: img.draw_text(t.x, t.y, &w, &h, t.r, t.g, t.b, t.a, t.br, t.bg, t.bb, t.ba, "%s", s); break;
    case 1: img.draw_text(t.x, t.y, t.r, t.g, t.b, t.a, t.br, t.bg, t.bb, t.ba, "%s", s); break;
    case 2: img.draw_text(t.x, t.y, &w, &h, pack8(t.r, t.g, t.b, t.a), pack8(t.br, t.bg, t.bb, t.ba), "%s", s); break;
    case 3: img.draw_text(t.x, t.y, pack8(t.r, t.g, t.b, t.a), pack8(t.br, t.bg, t.bb, t.ba), "%s", s); break;
    case 4: img.draw_text(t.x, t.y, pack8(t.r, t.g, t.b, t.a), "%s", s); break;
    case 5: img.draw_text(t.x, t.y, nullptr, &h, t.r, t.g, t.b, t.a, t.br, t.bg, t.bb, t.ba, "%s", s); break;
  }
  if (ow) *ow = w;
  if (oh) *oh = h;
}
inline string text_str(int form, const TextArgs& t) {
  return vf::fmt("%s at (%lld,%lld) colour %llx,%llx,%llx,%llx background %llx,%llx,%llx,%llx text ", text_form_name[form], t.x, t.y, (unsigned long long)t.r, (unsigned long long)t.g, (unsigned long long)t.b,
             (unsigned long long)t.a, (unsigned long long)t.br, (unsigned long long)t.bg, (unsigned long long)t.bb, (unsigned long long)(form == 4 ? 0 : t.ba)) + vf::show(t.s);
}

// ---------------------------------------------------------------------------------------------
// lines
// exact form of "pixel (x,y) lies within half a pixel (measured along the minor axis) of the segment (x1,y1)-(x2,y2)"
inline bool on_ideal_segment(ll x, ll y, ll x1, ll y1, ll x2, ll y2) {
  typedef __int128 I;
  I adx = x2 > x1 ? (I)x2 - x1 : (I)x1 - x2, ady = y2 > y1 ? (I)y2 - y1 : (I)y1 - y2;
  if (adx == 0 && ady == 0) return x == x1 && y == y1;
  for (int major_x = 0; major_x < 2; major_x++) {
    if (major_x ? adx < ady : ady < adx) continue;
    I t = major_x ? (I)x - x1 : (I)y - y1, T = major_x ? (I)x2 - x1 : (I)y2 - y1;
    if ((T > 0 && (t < 0 || t > T)) || (T < 0 && (t > 0 || t < T))) continue;
    I minor = major_x ? (I)y - y1 : (I)x - x1, M = major_x ? (I)y2 - y1 : (I)x2 - x1;
    I dev = minor * T - M * t;  // (minor - M*t/T) * T
    if (dev < 0) dev = -dev;
    I aT = T < 0 ? -T : T;
    if (2 * dev <= aT) return true;
  }
  return false;
}
// documented dash rule of the axis lines: stretches of dash pixels alternate, starting "on" at coordinate 0
inline bool dash_on(ll along, ll dash) { return !(dash && ((along / dash) & 1)); }

// ---------------------------------------------------------------------------------------------
// execution contexts (the same call made while exception machinery is active)
const int NCTX = 4;
const char* ctx_name[NCTX] = {"plain call", "inside a catch handler of an out_of_range thrown by read_pixel", "in a destructor during stack unwinding", "inside a catch(...) handler that rethrows afterwards"};
template <class F>
string run_in_ctx(int ctx, F&& f) {
  if (ctx == 1) {
    string o = "context-not-entered";
    Image probe(1, 1);
    try { probe.read_pixel(-1, -1); } catch (const std::out_of_range&) { o = vf::outcome(f); }
    return o;
  }
  if (ctx == 2) {
    string o = "context-not-entered";
    struct G {
      F& f;
      string& o;
      ~G() { o = vf::outcome(f); }
    };
    try {
      G g{f, o};
      throw std::out_of_range("unwinding");
    } catch (const std::out_of_range&) {}
    return o;
  }
  if (ctx == 3) {
    string o = "context-not-entered";
    try {
      try { throw std::runtime_error("outer"); } catch (...) {
        o = vf::outcome(f);
        throw;
      }
    } catch (const std::runtime_error&) {}
    return o;
  }
  return vf::outcome(f);
}

// ---------------------------------------------------------------------------------------------
// generic operation: the real call and the model step
struct StepOut {
  string expect = "ok";  // required outcome class (vf::outcome)
  string also_ok;        // second acceptable outcome (mask too small: documented runtime_error)
  vector<uint8_t> dc;    // per pixel of the resulting canvas: 1 = value not compared (adopted from the real image);
                         // 2 = "may be painted": either the value before or the painted value `paint` (partly-outside lines)
  Px paint{{0, 0, 0, 0}};
  string extra;          // non-empty: a result other than the canvas was wrong (read value, source modified, callback count)
};
struct GOp {
  string name, key;
  std::function<void(Image&)> real;
  std::function<void(const Model& before, Model& after, StepOut& so)> model;  // called after real(); `after` starts as a copy of `before`
};

// Executes one step on (img, m).  Returns "" when the real image agrees with the model (m is advanced), else the failure kind.
inline string run_step(const GOp& op, Image& img, Model& m, string& detail, int ctx = 0) {
  string o = run_in_ctx(ctx, [&] { op.real(img); });
  Model after = m;
  StepOut so;
  op.model(m, after, so);
  if (o != so.expect && (so.also_ok.empty() || o != so.also_ok)) {
    detail = "outcome " + o + ", expected " + so.expect;
    return o == "out_of_range" ? "out_of_range-escapes" : so.expect == "out_of_range" ? "outside-does-not-throw-out_of_range" : "unexpected-outcome";
  }
  if (o != so.expect) after = m, so.dc.clear(), so.extra.clear();  // threw the documented exception: nothing may have changed
  if (!so.extra.empty()) { detail = so.extra; return "wrong-result"; }
  if ((ll)img.get_width() != after.w || (ll)img.get_height() != after.h || img.get_has_alpha() != after.alpha || img.get_channel_width() != after.cw) {
    detail = vf::fmt("image is %zux%zu %s %d-bit, model ", img.get_width(), img.get_height(), img.get_has_alpha() ? "rgba" : "rgb", (int)img.get_channel_width()) + after.dump();
    return "wrong-shape";
  }
  if (img.get_data_size() != after.raw_size()) { detail = "get_data_size() inconsistent"; return "wrong-shape"; }
  Model got = model_of(img);
  for (size_t i = 0; i < after.p.size(); i++) {
    if (!so.dc.empty() && so.dc[i] == 1) { after.p[i] = got.p[i]; continue; }
    if (!so.dc.empty() && so.dc[i] == 2) {
      Model one(1, 1, after.alpha, after.cw);
      one.p[0] = after.p[i];
      one.write(0, 0, so.paint.c[0], so.paint.c[1], so.paint.c[2], so.paint.c[3]);
      if (got.p[i] == after.p[i] || got.p[i] == one.p[0]) { after.p[i] = got.p[i]; continue; }
      detail = vf::fmt("pixel (%zu,%zu) is neither untouched nor painted in the line colour: image ", i % after.w, i / after.w) + got.dump() + ", before " + m.dump();
      return "wrong-colour";
    }
    if (!(got.p[i] == after.p[i])) {
      detail = vf::fmt("pixel (%zu,%zu) is %s, model %s, before %s: image ", i % after.w, i / after.w, got.px_str(i).c_str(), after.px_str(i).c_str(), i < m.p.size() ? m.px_str(i).c_str() : "-") + got.dump() +
               ", model " + after.dump() + ", before " + m.dump();
      return "differs-from-model";
    }
  }
  m = after;
  return "";
}

// ---- constructors of operations ------------------------------------------------------------
struct BlitSrc {  // a source (and mask) image that lives as long as the operation list
  Model spat, mpat;
  Image simg, mimg;
  BlitSrc(const Model& s, const Model& m) : spat(s), mpat(m), simg(make_image(s)), mimg(make_image(m)) {}
};

// exact_wide (round 3): compare colours on 16/32/64-bit canvases too - only meaningful for the variants whose rule is a plain copy /
// caller-defined function at equal channel widths (colour-key, mask image, custom_blit(uint64)), see blit_rule_exact_at_any_width()
inline bool blit_rule_exact_at_any_width(int v) { return v == V_MASK_KEY || v == V_MASK_KEY32 || v == V_MASK_DST || v == V_MASK_DST32 || v == V_MASK_IMG || v == V_CUSTOM64; }
inline GOp op_blit(int v, std::shared_ptr<BlitSrc> src, Call c, bool exact_wide = false) {
  GOp op;
  op.key = vkey[v];
  op.name = vf::fmt("%s(source %dx%d %s %d-bit%s; x=%lld, y=%lld, w=%lld, h=%lld, sx=%lld, sy=%lld)", vname[v], src->spat.w, src->spat.h, src->spat.alpha ? "rgba" : "rgb", src->spat.cw,
      v == V_MASK_IMG ? vf::fmt(", mask %dx%d", src->mpat.w, src->mpat.h).c_str() : "", c.x, c.y, c.w, c.h, c.sx, c.sy);
  auto calls = std::make_shared<uint64_t>(0);
  auto out = std::make_shared<Out>(O_OK);
  op.real = [=](Image& img) {
    g_custom_calls = 0;
    *out = call_real(v, img, src->simg, &src->mimg, c);
    *calls = g_custom_calls;
    if (*out == O_OUT_OF_RANGE) throw std::out_of_range("escaped");
    if (*out == O_RUNTIME) throw std::runtime_error("escaped");
    if (*out == O_OTHER) throw std::logic_error("escaped");
  };
  op.model = [=](const Model& before, Model& after, StepOut& so) {
    Expect e;
    bool colour = (before.cw == 8 && src->spat.cw == 8) || (exact_wide && before.cw == src->spat.cw && blit_rule_exact_at_any_width(v));
    expect_blit(v, before, src->spat, v == V_MASK_IMG ? &src->mpat : nullptr, c, colour, e);
    after = e.canvas;
    if (!colour) so.dc = e.aff;
    if (v == V_MASK_IMG && (!e.mask_fits_request || !e.mask_covered)) so.also_ok = "runtime_error";
    if (v == V_MASK_IMG && !e.mask_covered) so.dc = e.aff;  // no documented result when it does not throw
    if (!same(src->simg, src->spat)) so.extra = "the source image was modified";
    else if ((v == V_CUSTOM32 || v == V_CUSTOM64) && *calls != e.naff) so.extra = vf::fmt("per-pixel callback ran %llu times, clipped rectangle has %zu pixels", (unsigned long long)*calls, e.naff);
  };
  return op;
}

inline GOp op_fill(ll x, ll y, ll w, ll h, uint64_t r, uint64_t g, uint64_t b, uint64_t a, int form /*0: 8 args, 1: default alpha, 2: uint32*/) {
  GOp op;
  op.key = form == 2 ? "fill_rect32" : "fill_rect";
  op.name = vf::fmt("fill_rect(%lld,%lld,%lld,%lld, %s %llx,%llx,%llx,%llx)", x, y, w, h, form == 2 ? "uint32" : form == 1 ? "default alpha" : "colour", (unsigned long long)r, (unsigned long long)g, (unsigned long long)b, (unsigned long long)a);
  op.real = [=](Image& img) {
    if (form == 2) img.fill_rect(x, y, w, h, pack8(r, g, b, a));
    else if (form == 1) img.fill_rect(x, y, w, h, r, g, b);
    else img.fill_rect(x, y, w, h, r, g, b, a);
  };
  op.model = [=](const Model& before, Model& after, StepOut& so) {
    uint64_t aa = form == 1 ? 0xFF : a;
    if (aa != 0xFF && before.cw != 8) {  // translucent fill of wide samples: the 0xFF-based arithmetic is only meaningful for 8-bit - geometry only
      so.dc.assign(before.p.size(), 0);
      for (ll dy = 0; dy < before.h; dy++)
        for (ll dx = 0; dx < before.w; dx++)
          if (!(dx - x < 0 || dx - x >= w || dy - y < 0 || dy - y >= h)) so.dc[(size_t)dy * before.w + dx] = 1;
      return;
    }
    m_fill_rect(after, x, y, w, h, r, g, b, aa);
  };
  return op;
}

// draw_line / draw_horizontal_line / draw_vertical_line.  kind 0: draw_line(x1,y1,x2,y2) with p = {x1,y1,x2,y2};
// kind 1: horizontal p = {x1,x2,y,dash}; kind 2: vertical p = {x,y1,y2,dash}.  form 0: r,g,b,a; 1: default alpha; 2: uint32.
// Exact when the line is unambiguous and completely inside; otherwise the ideal pixels are "may be painted" (subset law).
inline GOp op_line(int kind, ll p0, ll p1, ll p2, ll p3, uint64_t r, uint64_t g, uint64_t b, uint64_t a, int form) {
  GOp op;
  const char* kn[3] = {"draw_line", "draw_horizontal_line", "draw_vertical_line"};
  op.key = string(kn[kind]) + (form == 2 ? "32" : "");
  op.name = vf::fmt("%s(%lld,%lld,%lld,%lld, %s %llx,%llx,%llx,%llx)", kn[kind], p0, p1, p2, p3, form == 2 ? "uint32" : form == 1 ? "default alpha" : "colour", (unsigned long long)r, (unsigned long long)g,
      (unsigned long long)b, (unsigned long long)a);
  op.real = [=](Image& img) {
    uint32_t c32 = pack8(r, g, b, a);
    switch (kind * 3 + form) {
      case 0: img.draw_line(p0, p1, p2, p3, r, g, b, a); break;
      case 1: img.draw_line(p0, p1, p2, p3, r, g, b); break;
      case 2: img.draw_line(p0, p1, p2, p3, c32); break;
      case 3: img.draw_horizontal_line(p0, p1, p2, p3, r, g, b, a); break;
      case 4: img.draw_horizontal_line(p0, p1, p2, p3, r, g, b); break;
      case 5: img.draw_horizontal_line(p0, p1, p2, p3, c32); break;
      case 6: img.draw_vertical_line(p0, p1, p2, p3, r, g, b, a); break;
      case 7: img.draw_vertical_line(p0, p1, p2, p3, r, g, b); break;
      case 8: img.draw_vertical_line(p0, p1, p2, p3, c32); break;
    }
  };
  op.model = [=](const Model& before, Model& after, StepOut& so) {
    uint64_t aa = form == 1 ? 0xFF : a;
    bool exact;
    if (kind == 0) {
      ll adx = std::abs(p2 - p0), ady = std::abs(p3 - p1);
      exact = before.inside(p0, p1) && before.inside(p2, p3) && (adx == 0 || ady == 0 || adx == ady);
    } else {
      ll c = kind == 1 ? p2 : p0, a1 = kind == 1 ? p0 : p1, a2 = kind == 1 ? p1 : p2, len = kind == 1 ? before.w : before.h, other = kind == 1 ? before.h : before.w;
      exact = a1 >= 0 && a2 < len && a1 <= a2 && c >= 0 && c < other && p3 >= 0;
    }
    so.dc.assign(before.p.size(), 0);
    so.paint = Px{{r, g, b, aa}};
    for (ll y = 0; y < before.h; y++)
      for (ll x = 0; x < before.w; x++) {
        bool ideal;
        if (kind == 0) ideal = on_ideal_segment(x, y, p0, p1, p2, p3);
        else if (kind == 1) ideal = y == p2 && x >= p0 && x <= p1 && (p3 < 0 || dash_on(x, p3));
        else ideal = x == p0 && y >= p1 && y <= p2 && (p3 < 0 || dash_on(y, p3));
        if (!ideal) continue;
        if (exact) after.write(x, y, r, g, b, aa);
        else so.dc[(size_t)y * before.w + x] = 2;
      }
  };
  return op;
}

inline GOp op_text(int form, TextArgs t) {
  GOp op;
  op.key = vf::fmt("draw_text/form%d", form);
  if (form == 4) t.ba = 0;
  op.name = text_str(form, t);
  op.real = [=](Image& img) { real_draw_text(img, form, t); };
  op.model = [=](const Model& before, Model& after, StepOut& so) {
    // wide channels: translucent backgrounds are not meaningful (0xFF-based blend); with no background (ba == 0) the closing
    // column is a weight-0 blend, which leaves 16/32-bit samples alone but truncates 64-bit ones - nothing compared there
    if (before.cw != 8 && t.ba != 0xFF && !(t.ba == 0 && before.cw < 64)) {
      so.dc.assign(before.p.size(), 1);
      return;
    }
    m_draw_text(after, t);
  };
  return op;
}

// direct access.  form 0: write_pixel(x,y,r,g,b,a); 1: write_pixel default alpha; 2: write_pixel(x,y,uint32);
// 3: read_pixel(x,y,&r,&g,&b,&a); 4: read_pixel(x,y,&r,&g,&b) (default a = nullptr); 5: read_pixel(x,y) -> uint32
inline GOp op_pixel(int form, ll x, ll y, uint64_t r = 0xA1, uint64_t g = 0xB2, uint64_t b = 0xC3, uint64_t a = 0xD4) {
  GOp op;
  const char* fn[6] = {"write_pixel(x,y,r,g,b,a)", "write_pixel(x,y,r,g,b)", "write_pixel(x,y,uint32)", "read_pixel(x,y,&r,&g,&b,&a)", "read_pixel(x,y,&r,&g,&b)", "read_pixel(x,y)->uint32"};
  op.key = form < 3 ? "write_pixel" : "read_pixel";
  op.name = vf::fmt("%s at (%lld,%lld)", fn[form], x, y);
  auto got = std::make_shared<std::array<uint64_t, 5>>();
  op.real = [=](Image& img) {
    *got = {0xDEAD, 0xDEAD, 0xDEAD, 0xDEAD, 0xDEAD};
    switch (form) {
      case 0: img.write_pixel(x, y, r, g, b, a); break;
      case 1: img.write_pixel(x, y, r, g, b); break;
      case 2: img.write_pixel(x, y, pack8(r, g, b, a)); break;
      case 3: img.read_pixel(x, y, &(*got)[0], &(*got)[1], &(*got)[2], &(*got)[3]); break;
      case 4: img.read_pixel(x, y, &(*got)[0], &(*got)[1], &(*got)[2]); break;
      case 5: (*got)[4] = img.read_pixel(x, y); break;
    }
  };
  op.model = [=](const Model& before, Model& after, StepOut& so) {
    if (!before.inside(x, y)) { so.expect = "out_of_range"; return; }
    Px q = before.read(x, y);
    switch (form) {
      case 0: after.write(x, y, r, g, b, a); break;
      case 1: after.write(x, y, r, g, b, 0xFF); break;
      case 2: after.write(x, y, r & 0xFF, g & 0xFF, b & 0xFF, a & 0xFF); break;
      case 3: if (!((*got)[0] == q.c[0] && (*got)[1] == q.c[1] && (*got)[2] == q.c[2] && (*got)[3] == q.c[3])) so.extra = "read_pixel returned other samples than the canvas holds"; break;
      case 4: if (!((*got)[0] == q.c[0] && (*got)[1] == q.c[1] && (*got)[2] == q.c[2])) so.extra = "read_pixel returned other samples than the canvas holds"; break;
      case 5: if ((*got)[4] != pack(q)) so.extra = vf::fmt("read_pixel returned %08llX, the pixel packs to %08X", (unsigned long long)(*got)[4], pack(q)); break;
    }
  };
  return op;
}

// whole-image operations.  kind: 0 reverse_horizontal, 1 reverse_vertical, 2 invert, 3 set_has_alpha(arg), 4 set_channel_width(arg),
// 5 clear(r,g,b,a), 6 clear(r,g,b) default alpha, 7 clear(uint32), 8 set_alpha_from_mask_color(r,g,b), 9 set_alpha_from_mask_color(uint32)
inline GOp op_whole(int kind, int arg = 0) {
  GOp op;
  const char* kn[10] = {"reverse_horizontal", "reverse_vertical", "invert", "set_has_alpha", "set_channel_width", "clear", "clear(default alpha)", "clear(uint32)", "set_alpha_from_mask_color", "set_alpha_from_mask_color(uint32)"};
  op.key = kn[kind];
  op.name = kind == 3 || kind == 4 ? vf::fmt("%s(%d)", kn[kind], arg) : string(kn[kind]);
  op.real = [=](Image& img) {
    switch (kind) {
      case 0: img.reverse_horizontal(); break;
      case 1: img.reverse_vertical(); break;
      case 2: img.invert(); break;
      case 3: img.set_has_alpha(arg != 0); break;
      case 4: img.set_channel_width(arg); break;
      case 5: img.clear(0x55, 0x66, 0x77, 0x88); break;
      case 6: img.clear(0x55, 0x66, 0x77); break;
      case 7: img.clear((uint32_t)0x51617181u); break;
      case 8: img.set_alpha_from_mask_color(KEY[0], KEY[1], KEY[2]); break;
      case 9: img.set_alpha_from_mask_color((uint32_t)0x112233A5u); break;
    }
  };
  op.model = [=](const Model& before, Model& after, StepOut&) {
    switch (kind) {
      case 0: after = m_reverse_h(before); break;
      case 1: after = m_reverse_v(before); break;
      case 2: after = m_invert(before); break;
      case 3: after = m_set_alpha(before, arg != 0); break;
      case 4: after = m_set_width(before, arg); break;
      case 5: for (auto& q : after.p) { q.c[0] = 0x55; q.c[1] = 0x66; q.c[2] = 0x77; if (after.alpha) q.c[3] = 0x88; } break;
      case 6: for (auto& q : after.p) { q.c[0] = 0x55; q.c[1] = 0x66; q.c[2] = 0x77; if (after.alpha) q.c[3] = 0xFF; } break;
      case 7: for (auto& q : after.p) { q.c[0] = 0x51; q.c[1] = 0x61; q.c[2] = 0x71; if (after.alpha) q.c[3] = 0x81; } break;
      case 8: case 9:
        for (auto& q : after.p) if (after.alpha) q.c[3] = (q.c[0] == KEY[0] && q.c[1] == KEY[1] && q.c[2] == KEY[2]) ? 0 : after.maxv();
        break;
    }
  };
  return op;
}

// assignment from another image into the (non-fresh) object.  kind 0: copy-assign, 1: move-assign, 2: copy-construct a temporary and
// swap, 3: round trip through copy-construct + copy-assign of copies (deepness), 4: round trip through move-construct + move-assign
inline GOp op_assign(int kind, const Model& src) {
  GOp op;
  const char* kn[5] = {"copy-assign", "move-assign", "swap-with-copy", "copy-round-trip", "move-round-trip"};
  op.key = kn[kind];
  op.name = string(kn[kind]) + (kind < 3 ? " from " + vf::fmt("%dx%d %s %d-bit", src.w, src.h, src.alpha ? "rgba" : "rgb", src.cw) : "");
  auto bad = std::make_shared<string>();
  op.real = [=](Image& img) {
    bad->clear();
    switch (kind) {
      case 0: { Image s = make_image(src); const Image& ret = (img = s); if (&ret != &img) *bad = "operator= does not return *this"; else if (!same(s, src)) *bad = "copy assignment modified its source"; break; }
      case 1: { Image s = make_image(src); Image& ret = (img = std::move(s)); if (&ret != &img) *bad = "operator= does not return *this"; break; }
      case 2: { Image s = make_image(src); std::swap(img, s); break; }
      case 3: { Image t(img); Image u; u = t; if (t.get_width() && t.get_height()) t.write_pixel(0, 0, 9, 9, 9, 9); img = u; if (u.get_width() && u.get_height()) u.write_pixel(0, 0, 7, 7, 7, 7); break; }
      case 4: { Image t(std::move(img)); Image u(1, 2, true, 16); u = std::move(t); img = std::move(u); break; }
    }
  };
  op.model = [=](const Model&, Model& after, StepOut& so) {
    if (kind < 3) after = src;
    so.extra = *bad;
  };
  return op;
}

inline string shape_str(const Model& m) { return vf::fmt("%dx%d %s %d-bit", m.w, m.h, m.alpha ? "rgba" : "rgb", m.cw); }

}  // namespace
