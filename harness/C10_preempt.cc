// C10, variant "preempt" — E-PREEMPT (engine/preempt.hh): two (three) hash computations run CONCURRENTLY on real threads and
// every schedule with at most k preemptions at basic-block granularity is executed.  The statement quantifies over every
// byte string; a digest that is right for a byte string only while no other thread is hashing is not "the digest of the
// standard algorithm for every byte string".  Oracle per execution: every call's state words, bin() and hex() equal the
// independent reference (OpenSSL EVP / zlib / published FNV recurrence) for ITS input.
//
// Only src/Hash.cc is compiled with -fsanitize-coverage=trace-pc in this variant (props_d/C10.py, src_cxxflags): the
// scheduling points are the basic blocks of the hash code itself; calls into Strings.cc (bin()/hex() rendering) are atomic steps.
#define VP_IMPLEMENT
#include "../engine/preempt.hh"

#include "C10_common.hh"

using namespace c10;

namespace {

struct Call {
  int fn, ov;
  Shape shape;
};
std::string show(const Call& c) { return vf::fmt("%s(%s, %s)", fn_name[c.fn], c.ov == OV_STR ? "std::string" : "ptr+size", c10::show(c.shape).c_str()); }

struct Slot {
  Obs obs;
  std::string exc;
};
// A really fresh object: move-assigning an empty value keeps the old heap capacity of std::string members, and the
// instrumented inline string code then takes other branches than in the first execution (= other scheduling points).
template <class T>
void fresh(T& x) {
  std::destroy_at(&x);
  new (&x) T();
}

// Runs every schedule with <= bound preemptions of the given calls (one per thread); judges each call in each execution.
std::string pack(const std::vector<Slot>& slots) {
  std::string m;
  auto put = [&](const std::string& x) { uint32_t n = static_cast<uint32_t>(x.size()); m.append(reinterpret_cast<const char*>(&n), 4); m += x; };
  for (auto& s : slots) { put(s.exc); put(s.obs.state); put(s.obs.bin); put(s.obs.hex); }
  return m;
}
bool unpack(const std::string& m, std::vector<Slot>& slots) {
  size_t off = 0;
  auto get = [&](std::string& x) { if (off + 4 > m.size()) return false; uint32_t n; memcpy(&n, m.data() + off, 4); off += 4; if (off + n > m.size()) return false; x = m.substr(off, n); off += n; return true; };
  for (auto& s : slots)
    if (!get(s.exc) || !get(s.obs.state) || !get(s.obs.bin) || !get(s.obs.hex)) return false;
  return true;
}

// cold = true: every schedule runs in a freshly forked child of this (never warmed-up) process, so each execution contains
// the FIRST calls of the functions in its process.
void explore_calls(vf::Run& r, vp::Arena& arena, Cache& cache, const std::vector<Call>& calls, int bound, const char* keysuffix, int slice = 0, int nslices = 1, bool cold = false) {
  const int n = static_cast<int>(calls.size());
  std::vector<Slot> slots(n);
  std::vector<std::string> refs(n);
  std::vector<const Buf*> bufs(n);
  for (int t = 0; t < n; t++) {
    bufs[t] = &cache.buf(calls[t].shape);
    refs[t] = ref_value(calls[t].fn, bufs[t]->p, bufs[t]->n);
  }
  std::vector<std::function<void()>> jobs;
  for (int t = 0; t < n; t++) {
    jobs.push_back([&, t] {
      try {
        slots[t].obs = call_any(calls[t].fn, calls[t].ov, bufs[t]->p, bufs[t]->n);
      } catch (const std::exception& e) {
        slots[t].exc = e.what();
      } catch (...) {
        slots[t].exc = "non-standard exception";
      }
    });
  }
  vp::Stats st;
  std::map<std::string, uint64_t> outcomes;
  bool child_died = false;
  auto exec = [&](const std::vector<vp::Seg>& segs) {
    for (auto& s : slots) fresh(s);
    if (!cold) return arena.run(jobs, segs);
    if (child_died) return vp::Result();  // ends the enumeration of this configuration (reported below)
    vp::Forked f = vp::run_forked([&] { vp::Result res = arena.run(jobs, segs); return std::make_pair(res, pack(slots)); });
    if (!f.ok || !unpack(f.payload, slots)) {
      child_died = true;
      r.fail(std::string(fn_name[calls[0].fn]) + ":concurrent-first-calls-crash" + keysuffix, [&] {
        std::string w = "first calls in a fresh process";
        for (int u = 0; u < n; u++) w += vf::fmt(" T%d=%s", u, show(calls[u]).c_str());
        return w + " under schedule " + vp::show(segs) + vf::fmt(": the process died (wait status 0x%x)", f.status);
      });
      return vp::Result();
    }
    return f.res;
  };
  auto where = [&](const std::vector<vp::Seg>& segs, int t) {
    std::string w = cold ? "concurrent FIRST calls in a fresh process" : "concurrent calls";
    for (int u = 0; u < n; u++) w += vf::fmt(" T%d=%s", u, show(calls[u]).c_str());
    return w + " under schedule " + vp::show(segs) + vf::fmt(" (segments are counts of basic-block entries): result of T%d", t);
  };
  auto check = [&](const std::vector<vp::Seg>& segs, const vp::Result&) {
    std::string oc;
    for (int t = 0; t < n; t++) {
      if (!slots[t].exc.empty()) {
        r.fail(std::string(fn_name[calls[t].fn]) + ":concurrent-throws" + keysuffix, [&] { return where(segs, t) + " threw " + slots[t].exc; });
        oc += "X";
        continue;
      }
      // judge() reports under <fn>:wrong-digest / :bin-render / :hex-render / :wrong-value; concurrency is named in the description
      bool good = judge(r, calls[t].fn, calls[t].ov, slots[t].obs, refs[t], [&] { return where(segs, t); });
      oc += good ? "=" : "!";
    }
    outcomes[oc]++;
    r.beat();
  };
  vp::explore(n, bound, exec, check, st, slice, nslices);
  r.states += st.schedules;
  r.transitions += st.points;
  r.counters["schedules"] += st.schedules;
  r.counters["scheduling_points_executed"] += st.points;
  if (st.max_preemptions > static_cast<uint64_t>(bound)) r.fails("engine:preemption-bound-exceeded", "an execution had more preemptions than the bound");
  for (auto& [k, v] : outcomes) r.hist[std::string("executions with per-thread verdicts ") + k] += v;
}

void warm_up(Cache& cache) {
  // every function and rendering once, so that no job is ever preempted inside a static initialiser
  Shape s{70, P_LCG};
  const Buf& b = cache.buf(s);
  for (int fn = 0; fn < NFN; fn++)
    for (int ov : {OV_PTR, OV_STR}) (void)call_any(fn, ov, b.p, b.n);
}

// determinism self-check of the engine: the same schedule twice gives the same point counts
bool engine_selfcheck(vp::Arena& arena, Cache& cache) {
  const Buf& a = cache.buf({3, P_COUNTER});
  const Buf& b = cache.buf({5, P_FF});
  Obs oa, ob;
  fresh(oa);
  std::vector<std::function<void()>> jobs = {[&] { oa = call_any(F_SHA1, OV_PTR, a.p, a.n); }, [&] { ob = call_any(F_SHA1, OV_PTR, b.p, b.n); }};
  std::vector<vp::Seg> segs = {{0, 7}, {1, 9}, {0, vp::ALL}, {1, vp::ALL}};
  vp::Result r1 = arena.run(jobs, segs);
  fresh(oa);
  fresh(ob);
  vp::Result r2 = arena.run(jobs, segs);
  if (getenv("VP_DEBUG")) fprintf(stderr, "selfcheck: %ld %ld / %ld %ld pre %d %d\n", r1.points[0], r1.points[1], r2.points[0], r2.points[1], r1.preemptions, r2.preemptions);
  return r1.points[0] == r2.points[0] && r1.points[1] == r2.points[1] && r1.points[0] > 20 && r1.preemptions == 2 && r2.preemptions == 2;
}

}  // namespace

// Same function in both threads, different inputs (what a shared scratch buffer or cached table breaks first): every
// function x overload pair x shape pair, all schedules with <= 2 preemptions for one-block inputs, <= 1 for multi-block.
VF_SECTION(concurrent_same, 16, 16, 300) {
  Cache cache;
  warm_up(cache);
  vp::Arena arena(2);
  if (!engine_selfcheck(arena, cache)) {
    r.fails("engine:preempt-not-deterministic", "the same schedule executed twice gave different scheduling-point counts, or no points at all (is the variant built with -fsanitize-coverage=trace-pc?)");
    return;
  }
  const Shape small_a{3, P_COUNTER}, small_b{5, P_FF}, edge_a{55, P_LCG}, edge_b{56, P_ASCII}, multi_a{70, P_LCG}, multi_b{130, P_HIGH};
  struct Cfg { Shape a, b; int bound_digest_ptr, bound_other; };
  // bound_digest_ptr: MD5/SHA1/SHA256 through the pointer overload in both jobs (the block functions); bound_other: the
  // std::string overloads and the integer hashes
  std::vector<Cfg> cfgs = {{small_a, small_b, 2, 1}, {edge_a, edge_b, 1, 1}, {multi_a, small_b, 1, 1}, {multi_a, multi_b, 1, 1}};
  if (r.thorough()) cfgs = {{small_a, small_b, 2, 2}, {edge_a, edge_b, 2, 1}, {multi_a, small_b, 2, 1}, {multi_a, multi_b, 1, 1}, {small_a, small_a, 2, 2}};
  for (int fn = 0; fn < NFN; fn++)
    for (int ov1 : {OV_PTR, OV_STR})
      for (int ov2 : {OV_PTR, OV_STR})
        for (auto& c : cfgs) {
          if (fn == F_CRC32 && (ov1 == OV_STR || ov2 == OV_STR)) continue;  // crc32 has one overload
          int bound = (is_digest(fn) && ov1 == OV_PTR && ov2 == OV_PTR) ? c.bound_digest_ptr : c.bound_other;
          int nslices = bound >= 2 && is_digest(fn) ? 8 : 1;
          for (int slice = 0; slice < nslices; slice++) {
            if (!r.take()) continue;
            std::vector<Call> calls = {{fn, ov1, c.a}, {fn, ov2, c.b}};
            r.note(std::string("concurrent ") + fn_name[fn]);
            if (r.wants_desc()) r.desc(show(calls[0]) + " || " + show(calls[1]) + vf::fmt(", every schedule with <= %d preemptions (slice %d of %d)", bound, slice, nslices));
            explore_calls(r, arena, cache, calls, bound, "", slice, nslices);
            r.nontriv();
            r.ok("configuration slice explored");
          }
        }
  r.bound = "2 concurrent calls of the same function (6 functions x overload pairs x 4-5 input shape pairs incl. padding-boundary and multi-block inputs): every schedule with <= 2 preemptions at basic-block granularity for MD5/SHA1/SHA256 on one-block inputs through the pointer overload (thorough: also the padding-boundary 55/56-byte and the multi-block/one-block pairs, the std::string overloads, the integer hashes, and the same input in both jobs), <= 1 preemption for everything else";
}

// Different functions side by side (shared helpers: the tail-padding construction, string_printf, StringWriter).
VF_SECTION(concurrent_cross, 16, 16, 300) {
  Cache cache;
  warm_up(cache);
  vp::Arena arena(2);
  const Shape a{3, P_COUNTER}, b{61, P_FF};
  int bound = r.thorough() ? 2 : 1;
  for (int f = 0; f < NFN; f++)
    for (int g = 0; g < NFN; g++) {
      if (f == g) continue;
      for (int ov : {OV_PTR, OV_STR}) {
        if (ov == OV_STR && (f == F_CRC32 || g == F_CRC32)) continue;
        if (!r.take()) continue;
        std::vector<Call> calls = {{f, ov, a}, {g, ov, b}};
        r.note(std::string("concurrent ") + fn_name[f] + " and " + fn_name[g]);
        if (r.wants_desc()) r.desc(show(calls[0]) + " || " + show(calls[1]) + vf::fmt(", every schedule with <= %d preemptions", bound));
        explore_calls(r, arena, cache, calls, bound, "");
        r.nontriv();
        r.ok("configuration explored");
      }
    }
  r.bound = "2 concurrent calls of different functions (all 30 ordered pairs x 2 overloads): every schedule with <= 1 (quick) / <= 2 (thorough) preemptions at basic-block granularity";
}

// Cold start: the first calls of a process overlap (lazily built tables, caches keyed by the first caller's arguments).
// No warm-up, no call of the library in this process before the forks; one forked child per schedule.
VF_SECTION(concurrent_cold, 12, 12, 600) {
  Cache cache;
  vp::Arena arena(2);
  const Shape a{3, P_COUNTER}, b{5, P_FF}, c{70, P_LCG};
  for (int fn = 0; fn < NFN; fn++)
    for (int g = 0; g < NFN; g++) {
      // same function in both jobs (both overloads), and every function next to crc32 / SHA256 (the two with tables)
      bool same = fn == g;
      if (!same && !(g == F_CRC32 || g == F_SHA256)) continue;
      if (!same && !r.thorough() && g == F_SHA256) continue;
      for (int ov : {OV_PTR, OV_STR}) {
        if (ov == OV_STR && (fn == F_CRC32 || g == F_CRC32)) continue;
        if (!r.take()) continue;
        std::vector<Call> calls = {{fn, ov, a}, {g, OV_PTR, same && r.thorough() ? c : b}};
        r.note(std::string("cold concurrent ") + fn_name[fn] + " and " + fn_name[g]);
        if (r.wants_desc()) r.desc("fresh process per schedule: " + show(calls[0]) + " || " + show(calls[1]) + ", every schedule with <= 1 preemption");
        explore_calls(r, arena, cache, calls, 1, "", 0, 1, true);
        r.nontriv();
        r.ok("cold configuration explored");
      }
    }
  r.bound = "first calls: 2 concurrent calls of the same function (both overloads) and of every function next to crc32 (thorough: also next to SHA256), each schedule in a freshly forked process that has never called the library: every schedule with <= 1 preemption at basic-block granularity";
}

// Three threads, one preemption each way (two for the digests in thorough).
VF_SECTION(concurrent_three, 6, 6, 300) {
  Cache cache;
  warm_up(cache);
  vp::Arena arena(3);
  const Shape a{3, P_COUNTER}, b{5, P_FF}, c{9, P_ASCII};
  for (int fn = 0; fn < NFN; fn++) {
    if (!r.take()) continue;
    std::vector<Call> calls = {{fn, OV_PTR, a}, {fn, OV_PTR, b}, {fn, OV_STR, c}};
    int bound = r.thorough() ? 2 : 1;
    r.note(std::string("3 concurrent ") + fn_name[fn]);
    if (r.wants_desc()) r.desc(show(calls[0]) + " || " + show(calls[1]) + " || " + show(calls[2]) + vf::fmt(", every schedule with <= %d preemptions", bound));
    explore_calls(r, arena, cache, calls, bound, "");
    r.nontriv();
    r.ok("configuration explored");
  }
  r.bound = "3 concurrent calls of the same function: every schedule with <= 1 (quick) / <= 2 (thorough) preemptions and every completion order";
}

VF_MAIN()
