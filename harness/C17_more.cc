// C17 (round 2) — sizes far from the usual, execution contexts.
//
//  sizes     : token counts 0..65536 (positionals, one repeated option, distinct options, one flag group), long
//              values and tokens through all four constructors.
//  ctx       : typed reads, absent reads, assert_none_unused and construction inside a catch handler, in a
//              destructor during stack unwinding, on a fresh thread, under explicit errno values.
#include <string.h>

#include "C17_common.hh"

using namespace c17;

// ---------------------------------------------------------------------------------------------------
// sizes
// ---------------------------------------------------------------------------------------------------
VF_SECTION(sizes, 4, 4, 120) {
  r.note("sizes");
  std::vector<size_t> NS = {0, 1, 2, 3, 15, 16, 17, 255, 256, 257, 1000, 4096};
  if (r.thorough()) { NS.push_back(65535); NS.push_back(65536); NS.push_back(65537); }
  // shape 0: N positionals; 1: one option N times; 2: N distinct options; 3: one flag group of N letters; 4: mixture
  for (size_t N : NS) for (int shape = 0; shape < 5; shape++) for (int ctor = 0; ctor < 4; ctor++) for (int skip = 0; skip < 4; skip++) {
    if (!r.take()) continue;
    if (r.wants_desc()) r.desc(vf::fmt("%zu tokens of shape %d (0 positionals, 1 one option repeated, 2 distinct options, 3 one flag group, 4 mixture) through constructor %d; everything read except %s; assert_none_unused()", N, shape, ctor, skip == 0 ? "nothing" : skip == 1 ? "the first" : skip == 2 ? "the middle one" : "the last"));
    std::vector<std::string> tokens;
    static const char LETTERS[] = "abcdefghijklmnopqrstuvwxyzABCDEFGHIJKLMNOPQRSTUVWXYZ0123456789";
    switch (shape) {
      case 0: for (size_t i = 0; i < N; i++) tokens.push_back(vf::fmt("p%zu", i)); break;
      case 1: for (size_t i = 0; i < N; i++) tokens.push_back(vf::fmt("--r=%zu", i)); break;
      case 2: for (size_t i = 0; i < N; i++) tokens.push_back(vf::fmt("--o%zu=%zu", i, i * 7)); break;
      case 3: if (N) { std::string g = "-"; for (size_t i = 0; i < N; i++) g += LETTERS[i % 62]; tokens.push_back(g); } break;
      case 4: for (size_t i = 0; i < N; i++) tokens.push_back(i % 3 == 0 ? vf::fmt("%zu", i) : i % 3 == 1 ? vf::fmt("--r=%zu", i) : vf::fmt("--o%zu", i)); break;
    }
    RefArgs want = ref_classify(tokens);
    r.nontriv();
    std::optional<Arguments> a;
    std::string line;
    std::string oc = vf::outcome([&] {
      switch (ctor) {
        case 0: a.emplace(tokens); break;
        case 1: { std::vector<const char*> argv; for (auto& t : tokens) argv.push_back(t.c_str()); a.emplace(argv.data(), argv.size()); break; }
        case 2: { std::vector<std::string> copy = tokens; a.emplace(std::move(copy)); break; }
        case 3: { for (size_t i = 0; i < tokens.size(); i++) line += (i % 5 == 4 ? "\t" : i ? " " : "") + (i % 4 == 1 ? "\"" + tokens[i] + "\"" : tokens[i]); a.emplace(line); break; }
      }
    });
    bool ok = true;
    if (oc != "ok" || !(snapshot(*a) == want)) { r.fail("sizes:classification", [&] { return vf::fmt("%zu tokens of shape %d through constructor %d -> ", N, shape, ctor) + oc + (a ? " stored " + ref_str(snapshot(*a)) : "") + ", reference " + ref_str(want); }); continue; }
    // read everything through the public getters (typed where the text is a numeral), except one supplied argument
    size_t total = want.positional.size() + want.named_total;
    size_t skip_at = skip == 0 ? SIZE_MAX : skip == 1 ? 0 : skip == 2 ? total / 2 : total - 1;
    size_t at = 0;
    bool skipped = false;
    for (size_t i = 0; i < want.positional.size(); i++, at++) {
      if (at == skip_at) { skipped = true; continue; }
      std::string v;
      std::string o2 = vf::outcome([&] { v = a->get<std::string>(i); });
      if (o2 != "ok" || v != want.positional[i]) { ok = false; r.fail("sizes:get<string>(position)", [&] { return vf::fmt("%zu tokens of shape %d: get<string>(%zu) -> ", N, shape, i) + o2 + " " + short_show(v); }); break; }
      if (shape == 4) {
        uint64_t n = 0;
        o2 = vf::outcome([&] { n = a->get<uint64_t>(i, IntFormat::DECIMAL); });
        if (o2 != "ok" || vf::fmt("%llu", (unsigned long long)n) != want.positional[i]) { ok = false; r.fail("sizes:get<integer>(position)", [&] { return vf::fmt("%zu tokens of shape %d: get<uint64_t>(%zu, DECIMAL) -> ", N, shape, i) + o2 + vf::fmt(" %llu, text ", (unsigned long long)n) + short_show(want.positional[i]); }); break; }
      }
    }
    for (auto& kv : want.named) {
      // a name whose instances contain the skipped one is not read at all
      if (skip_at >= at && skip_at < at + kv.second.size()) { skipped = true; at += kv.second.size(); continue; }
      at += kv.second.size();
      std::vector<std::string> v;
      std::string o2 = vf::outcome([&] { v = a->get_multi<std::string>(kv.first); });
      if (o2 != "ok" || v != kv.second) { ok = false; r.fail("sizes:get_multi", [&] { return vf::fmt("%zu tokens of shape %d: get_multi<string>(%s) -> ", N, shape, vf::show(kv.first).c_str()) + o2 + " " + list_str(v) + ", reference " + list_str(kv.second); }); break; }
      if (shape == 1) {
        std::vector<uint32_t> nv;
        o2 = vf::outcome([&] { nv = a->get_multi<uint32_t>(kv.first, IntFormat::DECIMAL); });
        bool same = o2 == "ok" && nv.size() == kv.second.size();
        for (size_t i = 0; same && i < nv.size(); i++) same = nv[i] == i;
        if (!same) { ok = false; r.fail("sizes:get_multi", [&] { return vf::fmt("%zu tokens of shape %d: get_multi<uint32_t>(\"r\", DECIMAL) -> %s with %zu values, expected 0..%zu in order", N, shape, o2.c_str(), nv.size(), N - 1); }); break; }
      }
    }
    if (!ok) continue;
    std::string o3 = vf::outcome([&] { a->assert_none_unused(); });
    if (o3 != (skipped ? "invalid_argument" : "ok")) { r.fail("sizes:assert_none_unused", [&] { return vf::fmt("%zu tokens of shape %d through constructor %d, everything read except %s: assert_none_unused() -> ", N, shape, ctor, skipped ? "one argument" : "nothing") + o3; }); continue; }
    r.ok(skipped ? "one argument unread: invalid_argument" : "everything read: no throw");
  }
  // long values / tokens
  std::vector<size_t> LENS = {0, 1, 14, 15, 16, 17, 22, 23, 24, 255, 256, 257, 4095, 4096, 4097, 65535, 65536};
  if (r.thorough()) { LENS.push_back(1 << 20); LENS.push_back((1 << 24) + 1); }
  for (size_t len : LENS) for (int where = 0; where < 4; where++) for (int ctor = 0; ctor < 4; ctor++) {
    if (!r.take()) continue;
    if (r.wants_desc()) r.desc(vf::fmt("a %zu-byte %s through constructor %d: stored and returned unchanged", len, where == 0 ? "positional" : where == 1 ? "option value" : where == 2 ? "option name" : "value after a second '='", ctor));
    std::string body(len, 'v');
    for (size_t i = 0; i < len; i += 7) body[i] = (char)('a' + (i / 7) % 26);
    std::string tok = where == 0 ? body : where == 1 ? "--long=" + body : where == 2 ? "--" + body + "=1" : "--long=" + body + "=" + body;
    if (where == 2 && len == 0) tok = "--=1";
    std::vector<std::string> tokens = {"first", tok, "last"};
    RefArgs want = ref_classify(tokens);
    if (ctor == 3 && where == 0 && len == 0) { r.ok("don't-care line: empty quoted argument (not built)"); continue; }
    r.nontriv();
    std::optional<Arguments> a;
    std::string oc = vf::outcome([&] {
      switch (ctor) {
        case 0: a.emplace(tokens); break;
        case 1: { std::vector<const char*> argv; for (auto& t : tokens) argv.push_back(t.c_str()); a.emplace(argv.data(), argv.size()); break; }
        case 2: { std::vector<std::string> copy = tokens; a.emplace(std::move(copy)); break; }
        case 3: a.emplace("first '" + tok + "' last"); break;
      }
    });
    if (oc != "ok" || !(snapshot(*a) == want)) { r.fail("sizes:long-token", [&] { return vf::fmt("%zu-byte token (kind %d) through constructor %d -> ", len, where, ctor) + oc + (a ? " stored " + ref_str(snapshot(*a)) : "") + ", reference " + ref_str(want); }); continue; }
    bool ok = true;
    for (size_t i = 0; i < want.positional.size(); i++) {
      std::string v = a->get<std::string>(i);
      if (v != want.positional[i]) { ok = false; r.fail("sizes:long-token", [&] { return vf::fmt("%zu-byte token (kind %d): get<string>(%zu) returned ", len, where, i) + short_show(v); }); }
      // a long non-numeral never converts
      std::string o2 = vf::outcome([&] { a->get<int32_t>(i); });
      std::string o3 = vf::outcome([&] { a->get<double>(i, 1.0); });
      if (o2 != "invalid_argument" || o3 != "invalid_argument") { ok = false; r.fail("sizes:long-token", [&] { return vf::fmt("%zu-byte non-numeral positional %zu: get<int32_t> -> %s, get<double>(.., 1.0) -> %s", want.positional[i].size(), i, o2.c_str(), o3.c_str()); }); }
    }
    for (auto& kv : want.named) {
      std::string v = "?";
      std::string o2 = vf::outcome([&] { v = a->get<std::string>(kv.first, true); });
      if (o2 != "ok" || v != kv.second[0]) { ok = false; r.fail("sizes:long-token", [&] { return vf::fmt("%zu-byte token (kind %d): get<string>(name, true) -> ", len, where) + o2 + " " + short_show(v); }); }
    }
    std::string o4 = vf::outcome([&] { a->assert_none_unused(); });
    if (o4 != "ok") { ok = false; r.fail("sizes:assert_none_unused", [&] { return vf::fmt("%zu-byte token (kind %d): everything read, assert_none_unused() -> ", len, where) + o4; }); }
    // the unread variant: the exception message has to carry a long name
    Arguments b(tokens);
    b.get<std::string>((size_t)0);
    std::string o5 = vf::outcome([&] { b.assert_none_unused(); });
    if (o5 != "invalid_argument") { ok = false; r.fail("sizes:assert_none_unused", [&] { return vf::fmt("%zu-byte token (kind %d): only the first positional read, assert_none_unused() -> ", len, where) + o5; }); }
    if (ok) r.ok("long token stored and returned unchanged");
  }
  r.bound = vf::fmt("%zu token counts (0..%zu) x 5 shapes (positionals, one option repeated, distinct options, one flag group, mixture) x 4 constructors x {everything read, first / middle / last argument left unread}; %zu token lengths (0..%zu bytes) x {positional, option value, option name, value containing '='} x 4 constructors", NS.size(), NS.back(), LENS.size(), LENS.back());
}

// ---------------------------------------------------------------------------------------------------
// execution contexts
// ---------------------------------------------------------------------------------------------------
VF_SECTION(ctx, 4, 4, 120) {
  r.note("contexts");
  static const int ERRNOS[] = {0, ERANGE, EINVAL, EINTR, ENOMEM, EAGAIN, EDOM, EOVERFLOW};
  static const char* ITEXTS[] = {"10", "-1", "", "300", "5x", "0x10", "65536", "18446744073709551616", "-129"};
  static const char* FTEXTS[] = {"1.5", "", "1e3", "x", "1e999", "-0.25", "1e-400"};
  for (int cx = 0; cx < NCX; cx++) {
    for (int en : ERRNOS) {
      // integer reads
      for (const char* t : ITEXTS) for (IntFormat f : FORMATS) {
        if (!r.take()) continue;
        std::string text = t;
        if (r.wants_desc()) r.desc(vf::fmt("%s, errno = %d before each call: integer reads of text %s fmt %s (int8, uint16, int32, int64, unsigned long long; five access paths)", cx_name[cx], en, vf::show(text).c_str(), fmt_name(f)));
        r.nontriv();
        RefNum ref = ref_numeral(text, f);
        Arguments named(std::vector<std::string>{"--x=" + text});
        bool can_pos = text.empty() || text[0] != '-';
        std::optional<Arguments> pos;
        if (can_pos) pos.emplace(std::vector<std::string>{text});
        bool ok = true;
        for (int via = 0; via < NVIA; via++) {
          if ((via == VIA_POSITIONAL || via == VIA_POS_DEFAULT) && !can_pos) continue;
          run_ctx(cx, en, [&] {
            for (int ty = 0; ty < 5; ty++) {
              errno = en;
              const char* c = nullptr;
              switch (ty) {
                case 0: c = int_read<int8_t>(r, "context:get<integer>", named, pos ? &*pos : nullptr, text, ref, f, (Via)via, false); break;
                case 1: c = int_read<uint16_t>(r, "context:get<integer>", named, pos ? &*pos : nullptr, text, ref, f, (Via)via, false); break;
                case 2: c = int_read<int32_t>(r, "context:get<integer>", named, pos ? &*pos : nullptr, text, ref, f, (Via)via, false); break;
                case 3: c = int_read<int64_t>(r, "context:get<integer>", named, pos ? &*pos : nullptr, text, ref, f, (Via)via, false); break;
                case 4: c = int_read<unsigned long long>(r, "context:get<integer>", named, pos ? &*pos : nullptr, text, ref, f, (Via)via, false); break;
              }
              if (!c) ok = false;
            }
          });
        }
        if (ok) r.ok(std::string("integer reads: ") + cx_name[cx]);
      }
      // floating-point reads
      for (const char* t : FTEXTS) {
        if (!r.take()) continue;
        std::string text = t;
        if (r.wants_desc()) r.desc(vf::fmt("%s, errno = %d before each call: float/double/long double reads of text %s (five access paths)", cx_name[cx], en, vf::show(text).c_str()));
        r.nontriv();
        RefFloat ref = ref_float(text);
        Arguments named(std::vector<std::string>{"--x=" + text});
        bool can_pos = text.empty() || text[0] != '-';
        std::optional<Arguments> pos;
        if (can_pos) pos.emplace(std::vector<std::string>{text});
        bool ok = true;
        for (int via = 0; via < NVIA; via++) {
          if ((via == VIA_POSITIONAL || via == VIA_POS_DEFAULT) && !can_pos) continue;
          run_ctx(cx, en, [&] {
            for (int ty = 0; ty < 3; ty++) {
              errno = en;
              const char* c = nullptr;
              switch (ty) {
                case 0: c = float_read<float>(r, "context:get<float>", named, pos ? &*pos : nullptr, text, ref, via, false); break;
                case 1: c = float_read<double>(r, "context:get<float>", named, pos ? &*pos : nullptr, text, ref, via, false); break;
                case 2: c = float_read<long double>(r, "context:get<float>", named, pos ? &*pos : nullptr, text, ref, via, false); break;
              }
              if (!c) ok = false;
            }
          });
        }
        if (ok) r.ok(std::string("floating-point reads: ") + cx_name[cx]);
      }
      // construction, string/bool/absent getters and assert_none_unused
      for (int variant = 0; variant < 4; variant++) {
        if (!r.take()) continue;
        if (r.wants_desc()) r.desc(vf::fmt("%s, errno = %d: construct from a command line, read %s, assert_none_unused()", cx_name[cx], en, variant == 0 ? "nothing" : variant == 1 ? "everything" : variant == 2 ? "everything but the flag" : "everything but the last positional"));
        r.nontriv();
        std::string line = "in.bin --count=3\t-v 'out file' --count=4 --name=\"a b\"";
        std::vector<std::string> tokens = {"in.bin", "--count=3", "-v", "out file", "--count=4", "--name=a b"};
        RefArgs want = ref_classify(tokens);
        std::string report;
        run_ctx(cx, en, [&] {
          std::optional<Arguments> a;
          std::string oc = vf::outcome([&] { a.emplace(line); });
          if (oc != "ok" || !(snapshot(*a) == want)) { report = "Arguments(" + vf::show(line) + ") -> " + oc + (a ? " stored " + ref_str(snapshot(*a)) : ""); return; }
          std::string absent = vf::outcome([&] { a->get<int>("missing"); }) + "/" + vf::outcome([&] { a->get<double>((size_t)7); }) + "/" + vf::outcome([&] { if (a->get<int>("missing", 5) != 5 || a->get<bool>("missing") || !a->get<std::string>("missing").empty()) throw std::runtime_error("default"); });
          if (absent != "out_of_range/out_of_range/ok") { report = "absent getters -> " + absent; return; }
          if (variant >= 1) {
            std::string got;
            std::string oc2 = vf::outcome([&] {
              got += a->get<std::string>((size_t)0) + "|";
              if (variant != 3) got += a->get<std::string>((size_t)1) + "|";
              for (uint16_t c : a->get_multi<uint16_t>("count")) got += vf::fmt("%u,", (unsigned)c);
              if (variant != 2) got += a->get<bool>("v") ? "|v" : "|no-v";
              got += "|" + a->get<std::string>("name", true);
            });
            std::string expect = std::string("in.bin|") + (variant != 3 ? "out file|" : "") + "3,4," + (variant != 2 ? "|v" : "") + "|a b";
            if (oc2 != "ok" || got != expect) { report = "getters -> " + oc2 + " " + vf::show(got) + ", expected " + vf::show(expect); return; }
          }
          std::string oc3 = vf::outcome([&] { a->assert_none_unused(); });
          if (oc3 != (variant == 1 ? "ok" : "invalid_argument")) report = "assert_none_unused() -> " + oc3 + (variant == 1 ? " though everything was read" : " though something was never read");
        });
        if (!report.empty()) r.fail("context:construct-read-assert", [&] { return vf::fmt("%s, errno = %d: ", cx_name[cx], en) + report; });
        else r.ok(std::string("construct/read/assert: ") + cx_name[cx]);
      }
    }
  }
  r.bound = "6 execution contexts (plain, catch handler, destructor during unwinding, the same started inside a handler, fresh thread, fresh thread unwinding) x 8 errno values before every call x {9 integer texts x 4 formats x 5 targets x 5 access paths, 7 floating-point texts x 3 targets x 5 paths, construction from a quoted command line + absent getters + 4 read sets + assert_none_unused}";
}
