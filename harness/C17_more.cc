// C17 (round 2) — rare overloads / instantiations, sizes far from the usual, execution contexts.
//
//  overloads : every way of naming the argument (string literal, const char*, char*, std::string; size_t,
//              int, long, unsigned short, unsigned char positions) x with/without default x defaulted/explicit
//              format, for integer and floating-point targets; absent arguments with boundary defaults for all
//              fourteen integer and three floating-point targets; present-but-empty texts (--x, --x=, -x, "")
//              through every getter; get_multi on every list of <= 3 values; constructor forms.
//  sizes     : token counts 0..65536 (positionals, one repeated option, distinct options, one flag group), long
//              values and tokens through all four constructors.
//  ctx       : typed reads, absent reads, assert_none_unused and construction inside a catch handler, in a
//              destructor during stack unwinding, on a fresh thread, under explicit errno values.
#include <string.h>

#include "C17_common.hh"

using namespace c17;

namespace {

const std::string KI = "call-forms:get<integer>";
const std::string KF = "call-forms:get<float>";

template <class T, class Call>
bool int_form(vf::Run& r, const char* form, const std::string& text, IntFormat f, Call&& call) {
  T got = 0;
  std::string what;
  r.poison_errno();
  std::string oc = vf::outcome([&] { got = call(); }, &what);
  r.counters["getter_calls"]++;
  RefNum ref = ref_numeral(text, f);
  auto ctx = [&] { return vf::fmt("%s with T=%s fmt=%s on text ", form, iname<T>(), fmt_name(f)) + short_show(text) + " (reference: " + ref_num_str(ref) + ")"; };
  return judge_int<T>(r, KI, ctx, ref, oc, got, 1, what) != nullptr;
}
template <class T, class Call>
bool float_form(vf::Run& r, const char* form, const std::string& text, Call&& call) {
  T got = 0;
  std::string what;
  r.poison_errno();
  std::string oc = vf::outcome([&] { got = call(); }, &what);
  r.counters["getter_calls"]++;
  RefFloat ref = ref_float(text);
  auto ctx = [&] { return vf::fmt("%s with T=%s on text ", form, fname<T>()) + short_show(text) + " (reference: " + ref.why + ")"; };
  return judge_float<T>(r, KF, ctx, ref, oc, got, 1, what) != nullptr;
}

// every call form for one integer target
template <class T>
bool int_forms(vf::Run& r, const std::string& text, IntFormat f) {
  Arguments a(std::vector<std::string>{"--x=" + text, "--other=1"});
  bool can_pos = text.empty() || text[0] != '-';
  std::optional<Arguments> p;
  if (can_pos) p.emplace(std::vector<std::string>{text, "other"});
  const char* cp = "x";
  char buf[2] = {'x', 0};
  char* ncp = buf;
  std::string s = "x";
  const std::string& cs = s;
  bool ok = true;
  ok &= int_form<T>(r, "get<T>(\"x\" literal, fmt)", text, f, [&] { return a.get<T>("x", f); });
  ok &= int_form<T>(r, "get<T>(const char*, fmt)", text, f, [&] { return a.get<T>(cp, f); });
  ok &= int_form<T>(r, "get<T>(char*, fmt)", text, f, [&] { return a.get<T>(ncp, f); });
  ok &= int_form<T>(r, "get<T>(std::string, fmt)", text, f, [&] { return a.get<T>(s, f); });
  ok &= int_form<T>(r, "get<T>(const std::string&, fmt)", text, f, [&] { return a.get<T>(cs, f); });
  ok &= int_form<T>(r, "get<T>(std::string&&, fmt)", text, f, [&] { return a.get<T>(std::string("x"), f); });
  ok &= int_form<T>(r, "get<T>(\"x\" literal, default, fmt)", text, f, [&] { return a.get<T>("x", (T)77, f); });
  ok &= int_form<T>(r, "get<T>(const char*, default, fmt)", text, f, [&] { return a.get<T>(cp, (T)77, f); });
  ok &= int_form<T>(r, "get<T>(char*, default, fmt)", text, f, [&] { return a.get<T>(ncp, (T)77, f); });
  ok &= int_form<T>(r, "get<T>(std::string, default, fmt)", text, f, [&] { return a.get<T>(s, (T)77, f); });
  ok &= int_form<T>(r, "get_multi<T>(\"x\" literal, fmt)[0]", text, f, [&] { return a.get_multi<T>("x", f).at(0); });
  ok &= int_form<T>(r, "get_multi<T>(std::string, fmt)[0]", text, f, [&] { return a.get_multi<T>(s, f).at(0); });
  if (f == IntFormat::DEFAULT) {
    ok &= int_form<T>(r, "get<T>(\"x\" literal) with the format defaulted", text, f, [&] { return a.get<T>("x"); });
    ok &= int_form<T>(r, "get<T>(std::string) with the format defaulted", text, f, [&] { return a.get<T>(s); });
    ok &= int_form<T>(r, "get<T>(\"x\" literal, default) with the format defaulted", text, f, [&] { return a.get<T>("x", (T)77); });
    ok &= int_form<T>(r, "get<T>(const char*, default) with the format defaulted", text, f, [&] { return a.get<T>(cp, (T)77); });
    ok &= int_form<T>(r, "get_multi<T>(\"x\" literal)[0] with the format defaulted", text, f, [&] { return a.get_multi<T>("x").at(0); });
  }
  if (can_pos) {
    ok &= int_form<T>(r, "get<T>(size_t 0, fmt)", text, f, [&] { return p->get<T>((size_t)0, f); });
    ok &= int_form<T>(r, "get<T>(int 0, fmt)", text, f, [&] { return p->get<T>(0, f); });
    ok &= int_form<T>(r, "get<T>(long 0, fmt)", text, f, [&] { return p->get<T>(0L, f); });
    ok &= int_form<T>(r, "get<T>(unsigned short 0, fmt)", text, f, [&] { return p->get<T>((unsigned short)0, f); });
    ok &= int_form<T>(r, "get<T>(unsigned char 0, fmt)", text, f, [&] { return p->get<T>((unsigned char)0, f); });
    ok &= int_form<T>(r, "get<T>(size_t 0, default, fmt)", text, f, [&] { return p->get<T>((size_t)0, (T)77, f); });
    ok &= int_form<T>(r, "get<T>(int 0, default, fmt)", text, f, [&] { return p->get<T>(0, (T)77, f); });
    if (f == IntFormat::DEFAULT) {
      ok &= int_form<T>(r, "get<T>(size_t 0) with the format defaulted", text, f, [&] { return p->get<T>((size_t)0); });
      ok &= int_form<T>(r, "get<T>(int 0) with the format defaulted", text, f, [&] { return p->get<T>(0); });
      ok &= int_form<T>(r, "get<T>(size_t 0, default) with the format defaulted", text, f, [&] { return p->get<T>((size_t)0, (T)77); });
      ok &= int_form<T>(r, "get<T>(int 0, default) with the format defaulted", text, f, [&] { return p->get<T>(0, (T)77); });
    }
  }
  return ok;
}

template <class T>
bool float_forms(vf::Run& r, const std::string& text) {
  Arguments a(std::vector<std::string>{"--x=" + text, "--other=1"});
  bool can_pos = text.empty() || text[0] != '-';
  std::optional<Arguments> p;
  if (can_pos) p.emplace(std::vector<std::string>{text, "other"});
  const char* cp = "x";
  std::string s = "x";
  bool ok = true;
  ok &= float_form<T>(r, "get<T>(\"x\" literal)", text, [&] { return a.get<T>("x"); });
  ok &= float_form<T>(r, "get<T>(const char*)", text, [&] { return a.get<T>(cp); });
  ok &= float_form<T>(r, "get<T>(std::string)", text, [&] { return a.get<T>(s); });
  ok &= float_form<T>(r, "get<T>(\"x\" literal, std::nullopt)", text, [&] { return a.get<T>("x", std::nullopt); });
  ok &= float_form<T>(r, "get<T>(\"x\" literal, default value)", text, [&] { return a.get<T>("x", (T)9.25); });
  ok &= float_form<T>(r, "get<T>(const char*, optional(default))", text, [&] { return a.get<T>(cp, std::optional<T>((T)9.25)); });
  ok &= float_form<T>(r, "get<T>(std::string, default value)", text, [&] { return a.get<T>(s, (T)9.25); });
  ok &= float_form<T>(r, "get<T>(std::string, optional holding NaN)", text, [&] { return a.get<T>(s, std::optional<T>(std::numeric_limits<T>::quiet_NaN())); });
  ok &= float_form<T>(r, "get_multi<T>(\"x\" literal)[0]", text, [&] { return a.get_multi<T>("x").at(0); });
  ok &= float_form<T>(r, "get_multi<T>(std::string)[0]", text, [&] { return a.get_multi<T>(s).at(0); });
  if (can_pos) {
    ok &= float_form<T>(r, "get<T>(size_t 0)", text, [&] { return p->get<T>((size_t)0); });
    ok &= float_form<T>(r, "get<T>(int 0)", text, [&] { return p->get<T>(0); });
    ok &= float_form<T>(r, "get<T>(unsigned char 0)", text, [&] { return p->get<T>((unsigned char)0); });
    ok &= float_form<T>(r, "get<T>(size_t 0, std::nullopt)", text, [&] { return p->get<T>((size_t)0, std::nullopt); });
    ok &= float_form<T>(r, "get<T>(size_t 0, default value)", text, [&] { return p->get<T>((size_t)0, (T)9.25); });
    ok &= float_form<T>(r, "get<T>(int 0, default value)", text, [&] { return p->get<T>(0, (T)9.25); });
  }
  return ok;
}

// absent arguments: out_of_range, or exactly the supplied default
template <class T>
bool absent_int(vf::Run& r, Arguments& a, const std::vector<std::string>& tokens) {
  typedef std::numeric_limits<T> L;
  bool ok = true;
  auto ctx = [&](const char* call) { return "Arguments(" + list_str(tokens) + "): " + call + vf::fmt(" with T=%s", iname<T>()); };
  const T DEFAULTS[] = {(T)0, (T)1, (T)77, L::max(), L::min(), (T)(L::max() - 1), (T)(L::min() + 1), (T)-1, (T)(L::max() / 2 + 1)};
  for (IntFormat f : FORMATS) {
    for (T d : DEFAULTS) {
      T g1 = 0, g2 = 0, g3 = 0;
      r.poison_errno();
      std::string oc1 = vf::outcome([&] { g1 = a.get<T>("q", d, f); });
      std::string oc2 = vf::outcome([&] { g2 = a.get<T>((size_t)9, d, f); });
      std::string oc3 = vf::outcome([&] { g3 = a.get<T>(std::string("q"), d); });
      r.counters["getter_calls"] += 3;
      if (oc1 != "ok" || g1 != d) { ok = false; r.fail("absent:get<integer>(name, default)", [&] { return ctx("get<T>(\"q\", default, fmt)") + " default " + s128((i128)d) + " -> " + oc1 + " " + s128((i128)g1); }); }
      if (oc2 != "ok" || g2 != d) { ok = false; r.fail("absent:get<integer>(position, default)", [&] { return ctx("get<T>(9, default, fmt)") + " default " + s128((i128)d) + " -> " + oc2 + " " + s128((i128)g2); }); }
      if (oc3 != "ok" || g3 != d) { ok = false; r.fail("absent:get<integer>(name, default)", [&] { return ctx("get<T>(std::string \"q\", default)") + " default " + s128((i128)d) + " -> " + oc3 + " " + s128((i128)g3); }); }
    }
    r.poison_errno();
    std::string oc1 = vf::outcome([&] { a.get<T>("q", f); });
    std::string oc2 = vf::outcome([&] { a.get<T>((size_t)9, f); });
    std::vector<T> multi{(T)1};
    std::string oc3 = vf::outcome([&] { multi = a.get_multi<T>("q", f); });
    r.counters["getter_calls"] += 3;
    if (oc1 != "out_of_range") { ok = false; r.fail("absent:get<integer>(name)", [&] { return ctx("get<T>(\"q\", fmt)") + " -> " + oc1 + ", expected out_of_range"; }); }
    if (oc2 != "out_of_range") { ok = false; r.fail("absent:get<integer>(position)", [&] { return ctx("get<T>(9, fmt)") + " -> " + oc2 + ", expected out_of_range"; }); }
    if (!(oc3 == "out_of_range" || (oc3 == "ok" && multi.empty()))) { ok = false; r.fail("absent:get_multi", [&] { return ctx("get_multi<T>(\"q\", fmt)") + " -> " + oc3 + vf::fmt(" with %zu values", multi.size()); }); }
  }
  return ok;
}
template <class T>
bool same_float(T a, T b) {
  if (std::isnan(a) || std::isnan(b)) return std::isnan(a) && std::isnan(b);
  return a == b && std::signbit(a) == std::signbit(b);
}
template <class T>
bool absent_float(vf::Run& r, Arguments& a, const std::vector<std::string>& tokens) {
  typedef std::numeric_limits<T> L;
  bool ok = true;
  auto ctx = [&](const char* call) { return "Arguments(" + list_str(tokens) + "): " + call + vf::fmt(" with T=%s", fname<T>()); };
  const T DEFAULTS[] = {(T)0, -(T)0, (T)1, (T)-2.5, L::max(), L::lowest(), L::min(), L::denorm_min(), L::infinity(), -L::infinity(), L::quiet_NaN(), L::epsilon()};
  for (T d : DEFAULTS) {
    T g1 = 7, g2 = 7, g3 = 7;
    r.poison_errno();
    std::string oc1 = vf::outcome([&] { g1 = a.get<T>("q", d); });
    std::string oc2 = vf::outcome([&] { g2 = a.get<T>((size_t)9, std::optional<T>(d)); });
    std::string oc3 = vf::outcome([&] { g3 = a.get<T>(std::string("q"), std::optional<T>(d)); });
    r.counters["getter_calls"] += 3;
    if (oc1 != "ok" || !same_float(g1, d)) { ok = false; r.fail("absent:get<float>(name, default)", [&] { return ctx("get<T>(\"q\", default)") + vf::fmt(" default %.17g -> ", (double)d) + oc1 + vf::fmt(" %.17g", (double)g1); }); }
    if (oc2 != "ok" || !same_float(g2, d)) { ok = false; r.fail("absent:get<float>(position, default)", [&] { return ctx("get<T>(9, default)") + vf::fmt(" default %.17g -> ", (double)d) + oc2 + vf::fmt(" %.17g", (double)g2); }); }
    if (oc3 != "ok" || !same_float(g3, d)) { ok = false; r.fail("absent:get<float>(name, default)", [&] { return ctx("get<T>(std::string \"q\", default)") + vf::fmt(" default %.17g -> ", (double)d) + oc3 + vf::fmt(" %.17g", (double)g3); }); }
  }
  r.poison_errno();
  std::string oc1 = vf::outcome([&] { a.get<T>("q"); });
  std::string oc2 = vf::outcome([&] { a.get<T>((size_t)9); });
  std::string oc4 = vf::outcome([&] { a.get<T>("q", std::nullopt); });
  std::string oc5 = vf::outcome([&] { a.get<T>((size_t)9, std::optional<T>()); });
  std::vector<T> multi{(T)1};
  std::string oc3 = vf::outcome([&] { multi = a.get_multi<T>("q"); });
  r.counters["getter_calls"] += 5;
  if (oc1 != "out_of_range" || oc4 != "out_of_range") { ok = false; r.fail("absent:get<float>(name)", [&] { return ctx("get<T>(\"q\") / get<T>(\"q\", nullopt)") + " -> " + oc1 + " / " + oc4 + ", expected out_of_range"; }); }
  if (oc2 != "out_of_range" || oc5 != "out_of_range") { ok = false; r.fail("absent:get<float>(position)", [&] { return ctx("get<T>(9) / get<T>(9, nullopt)") + " -> " + oc2 + " / " + oc5 + ", expected out_of_range"; }); }
  if (!(oc3 == "out_of_range" || (oc3 == "ok" && multi.empty()))) { ok = false; r.fail("absent:get_multi", [&] { return ctx("get_multi<T>(\"q\")") + " -> " + oc3 + vf::fmt(" with %zu values", multi.size()); }); }
  return ok;
}

// get_multi on a list of values
template <class T>
bool multi_int(vf::Run& r, const std::vector<std::string>& vals, IntFormat f) {
  std::vector<std::string> tokens = {"p"};
  for (auto& v : vals) tokens.push_back("--x=" + v);
  tokens.push_back("--y=1");
  Arguments a(tokens);
  std::vector<T> got;
  std::string what;
  r.poison_errno();
  std::string oc = vf::outcome([&] { got = a.get_multi<T>("x", f); }, &what);
  r.counters["getter_calls"]++;
  bool any_bad = false, any_dc = false;
  std::vector<T> want;
  for (auto& v : vals) {
    uint64_t bits = 0;
    RefNum ref = ref_numeral(v, f);
    Expect e = expectation<T>(ref, &bits);
    if (e == E_DONTCARE || ref.plus) any_dc = true;
    else if (e == E_INVALID) any_bad = true;
    else want.push_back((T)bits);
  }
  if (any_dc) return true;
  auto ctx = [&] { return vf::fmt("get_multi<%s>(\"x\", %s) on values ", iname<T>(), fmt_name(f)) + list_str(vals); };
  if (any_bad) {
    if (oc != "invalid_argument") { r.fail("get_multi:list-with-a-rejected-value", [&] { return ctx() + " -> " + oc + vf::fmt(" (%zu values), expected invalid_argument", got.size()); }); return false; }
    return true;
  }
  if (oc != "ok" || got != want) {
    r.fail("get_multi:wrong-values", [&] { std::string s; for (T g : got) s += s128((i128)g) + ","; return ctx() + " -> " + oc + " [" + s + "] (" + what + ")"; });
    return false;
  }
  // everything of x was read: after also reading p and y nothing is left over
  a.get<std::string>((size_t)0);
  a.get<std::string>("y");
  std::string oc2 = vf::outcome([&] { a.assert_none_unused(); });
  if (oc2 != "ok") { r.fail("get_multi:leaves-values-unread", [&] { return ctx() + " succeeded, p and y were read, but assert_none_unused() -> " + oc2; }); return false; }
  return true;
}
template <class T>
bool multi_float(vf::Run& r, const std::vector<std::string>& vals) {
  std::vector<std::string> tokens = {"p"};
  for (auto& v : vals) tokens.push_back("--x=" + v);
  tokens.push_back("--y=1");
  Arguments a(tokens);
  std::vector<T> got;
  r.poison_errno();
  std::string oc = vf::outcome([&] { got = a.get_multi<T>("x"); });
  r.counters["getter_calls"]++;
  bool any_bad = false, any_dc = false;
  std::vector<T> want;
  for (auto& v : vals) {
    RefFloat ref = ref_float(v);
    if (ref.cls == DONTCARE) any_dc = true;
    else if (ref.cls == INVALID) any_bad = true;
    else want.push_back((T)ref.value);
  }
  if (any_dc) return true;
  auto ctx = [&] { return vf::fmt("get_multi<%s>(\"x\") on values ", fname<T>()) + list_str(vals); };
  if (any_bad) {
    if (oc != "invalid_argument") { r.fail("get_multi:list-with-a-rejected-value", [&] { return ctx() + " -> " + oc + vf::fmt(" (%zu values), expected invalid_argument", got.size()); }); return false; }
    return true;
  }
  if (oc != "ok" || got != want) {
    r.fail("get_multi:wrong-values", [&] { std::string s; for (T g : got) s += vf::fmt("%.17g,", (double)g); return ctx() + " -> " + oc + " [" + s + "]"; });
    return false;
  }
  a.get<std::string>((size_t)0);
  a.get<std::string>("y");
  std::string oc2 = vf::outcome([&] { a.assert_none_unused(); });
  if (oc2 != "ok") { r.fail("get_multi:leaves-values-unread", [&] { return ctx() + " succeeded, p and y were read, but assert_none_unused() -> " + oc2; }); return false; }
  return true;
}

}  // namespace

VF_SECTION(overloads, 8, 8, 120) {
  r.note("call forms");
  // (a) every way of writing the call
  static const char* TEXTS[] = {"10", "-1", "", "300", "1.5", "x", "0x7f", "08", "70000", "-129", "4294967296", "1e3", "7 ", "-"};
  for (const char* t : TEXTS) {
    for (IntFormat f : FORMATS) {
      if (!r.take()) continue;
      std::string text = t;
      if (r.wants_desc()) r.desc("every call form of the integer getters (identifier as literal / const char* / char* / std::string / size_t / int / long / unsigned short / unsigned char; with and without default; format explicit and defaulted) on text " + vf::show(text) + " fmt " + fmt_name(f));
      r.nontriv();
      bool ok = true;
      ok &= int_forms<int8_t>(r, text, f);
      ok &= int_forms<uint8_t>(r, text, f);
      ok &= int_forms<int16_t>(r, text, f);
      ok &= int_forms<uint16_t>(r, text, f);
      ok &= int_forms<int32_t>(r, text, f);
      ok &= int_forms<uint32_t>(r, text, f);
      ok &= int_forms<int64_t>(r, text, f);
      ok &= int_forms<uint64_t>(r, text, f);
      ok &= int_forms<long long>(r, text, f);
      ok &= int_forms<unsigned long long>(r, text, f);
      ok &= int_forms<char>(r, text, f);
      ok &= int_forms<wchar_t>(r, text, f);
      ok &= int_forms<char16_t>(r, text, f);
      ok &= int_forms<char32_t>(r, text, f);
      if (ok) r.ok("integer call forms agree with the reference");
    }
    if (!r.take()) continue;
    std::string text = t;
    if (r.wants_desc()) r.desc("every call form of the floating-point getters on text " + vf::show(text));
    r.nontriv();
    bool ok = float_forms<float>(r, text);
    ok &= float_forms<double>(r, text);
    ok &= float_forms<long double>(r, text);
    if (ok) r.ok("floating-point call forms agree with the reference");
  }
  // (b) absent arguments and boundary defaults
  static const std::vector<std::vector<std::string>> OBJS = {{}, {"p0", "--x=12"}, {"--Q=1", "-Q", "--qq=2", "a", "b", "c", "d", "e", "f", "g", "h", "i"}};
  for (auto& tokens : OBJS) {
    if (!r.take()) continue;
    if (r.wants_desc()) r.desc("Arguments(" + list_str(tokens) + "): name q and position 9 are absent; every getter of every target type with boundary defaults");
    r.nontriv();
    Arguments a(tokens);
    RefArgs before = snapshot(a);
    bool ok = true;
    ok &= absent_int<int8_t>(r, a, tokens);
    ok &= absent_int<uint8_t>(r, a, tokens);
    ok &= absent_int<int16_t>(r, a, tokens);
    ok &= absent_int<uint16_t>(r, a, tokens);
    ok &= absent_int<int32_t>(r, a, tokens);
    ok &= absent_int<uint32_t>(r, a, tokens);
    ok &= absent_int<int64_t>(r, a, tokens);
    ok &= absent_int<uint64_t>(r, a, tokens);
    ok &= absent_int<long long>(r, a, tokens);
    ok &= absent_int<unsigned long long>(r, a, tokens);
    ok &= absent_int<char>(r, a, tokens);
    ok &= absent_int<wchar_t>(r, a, tokens);
    ok &= absent_int<char16_t>(r, a, tokens);
    ok &= absent_int<char32_t>(r, a, tokens);
    ok &= absent_float<float>(r, a, tokens);
    ok &= absent_float<double>(r, a, tokens);
    ok &= absent_float<long double>(r, a, tokens);
    {
      std::string s1 = "?", s2 = "?";
      std::string oc1 = vf::outcome([&] { s1 = a.get<std::string>("q"); });
      std::string oc1b = vf::outcome([&] { s1 += a.get<std::string>(std::string("q"), false); });
      std::string oc2 = vf::outcome([&] { a.get<std::string>("q", true); });
      std::string oc3 = vf::outcome([&] { a.get<std::string>((size_t)9); });
      std::string oc3b = vf::outcome([&] { a.get<std::string>((size_t)9, true); });
      std::string oc4 = vf::outcome([&] { s2 = a.get<std::string>((size_t)9, false); });
      bool b = true;
      std::string oc5 = vf::outcome([&] { b = a.get<bool>("q"); });
      std::vector<std::string> ms{"?"};
      std::string oc6 = vf::outcome([&] { ms = a.get_multi<std::string>("q"); });
      if (oc1 != "ok" || oc1b != "ok" || !s1.empty() || oc2 != "out_of_range" || oc3 != "out_of_range" || oc3b != "out_of_range" || oc4 != "ok" || !s2.empty() || oc5 != "ok" || b || !(oc6 == "out_of_range" || (oc6 == "ok" && ms.empty()))) {
        ok = false;
        r.fail("absent:string-and-bool-getters", [&] { return "Arguments(" + list_str(tokens) + vf::fmt("): get<string>(\"q\") -> %s/%s %s; (\"q\",true) -> %s; (9) -> %s; (9,true) -> %s; (9,false) -> %s %s; get<bool>(\"q\") -> %s %d; get_multi<string>(\"q\") -> %s (%zu)", oc1.c_str(), oc1b.c_str(), vf::show(s1).c_str(), oc2.c_str(), oc3.c_str(), oc3b.c_str(), oc4.c_str(), vf::show(s2).c_str(), oc5.c_str(), (int)b, oc6.c_str(), ms.size()); });
      }
    }
    // asking for absent arguments stores nothing and reads nothing
    if (!(snapshot(a) == before)) { ok = false; r.fail("absent:query-changed-stored-arguments", [&] { return "Arguments(" + list_str(tokens) + ") after queries for the absent name q and position 9 holds " + ref_str(snapshot(a)); }); }
    std::string oc = vf::outcome([&] { a.assert_none_unused(); });
    if (oc != (tokens.empty() ? "ok" : "invalid_argument")) { ok = false; r.fail("absent:assert_none_unused", [&] { return "Arguments(" + list_str(tokens) + ") after queries for absent arguments only: assert_none_unused() -> " + oc; }); }
    if (ok) r.ok("absent: out_of_range / default / empty");
  }
  // (c) present but empty: a typed getter, with or without default, has a text to judge and must reject it
  static const std::vector<std::vector<std::string>> EMPTIES = {{"--x"}, {"--x="}, {"-x"}, {"-yx"}, {"--x", "p"}, {"", "--x"}};
  for (auto& tokens : EMPTIES) for (IntFormat f : FORMATS) {
    if (!r.take()) continue;
    if (r.wants_desc()) r.desc("Arguments(" + list_str(tokens) + "): option x is present with empty text: every typed getter with/without default, fmt " + fmt_name(f));
    r.nontriv();
    bool ok = true;
    auto one = [&](auto tag) {
      typedef decltype(tag) T;
      Arguments a(tokens);
      RefNum ref = ref_numeral("", f);
      for (int via = 0; via <= VIA_DEFAULT; via++) if (!int_read<T>(r, "present-but-empty:get<integer>", a, nullptr, "", ref, f, (Via)via)) ok = false;
    };
    one((int8_t)0); one((uint8_t)0); one((int16_t)0); one((uint16_t)0); one((int32_t)0); one((uint32_t)0); one((int64_t)0); one((uint64_t)0);
    one((long long)0); one((unsigned long long)0); one((char)0); one((wchar_t)0); one((char16_t)0); one((char32_t)0);
    auto onef = [&](auto tag) {
      typedef decltype(tag) T;
      Arguments a(tokens);
      RefFloat ref = ref_float("");
      for (int via = 0; via <= VIA_DEFAULT; via++) if (!float_read<T>(r, "present-but-empty:get<float>", a, nullptr, "", ref, via)) ok = false;
    };
    onef((float)0); onef((double)0); onef((long double)0);
    {
      Arguments a(tokens);
      std::string s = "?";
      bool b = false;
      std::vector<std::string> ms;
      std::string oc1 = vf::outcome([&] { s = a.get<std::string>("x", true); });
      std::string oc2 = vf::outcome([&] { b = a.get<bool>("x"); });
      std::string oc3 = vf::outcome([&] { ms = a.get_multi<std::string>("x"); });
      if (oc1 != "ok" || !s.empty() || oc2 != "ok" || !b || oc3 != "ok" || ms != std::vector<std::string>{""}) { ok = false; r.fail("present-but-empty:string-and-bool-getters", [&] { return "Arguments(" + list_str(tokens) + "): get<string>(\"x\", true) -> " + oc1 + " " + vf::show(s) + "; get<bool>(\"x\") -> " + oc2 + (b ? " true" : " false") + "; get_multi<string>(\"x\") -> " + oc3 + " " + list_str(ms); }); }
    }
    if (ok) r.ok("present but empty: typed getters reject, string/bool getters see it");
  }
  // (d) get_multi on every list of <= 3 values
  static const char* VALS[] = {"1", "", "x", "300", "-1", "0x10", "1.5"};
  const uint32_t NV = sizeof(VALS) / sizeof(VALS[0]);
  for (size_t len = 0; len <= 3; len++) {
    for (vf::Odometer o(std::vector<uint32_t>(len, NV)); !o.done; o.step()) {
      if (!r.take()) continue;
      std::vector<std::string> vals;
      for (size_t i = 0; i < len; i++) vals.push_back(VALS[o.d[len - 1 - i]]);
      if (r.wants_desc()) r.desc("--x supplied with values " + list_str(vals) + ": get_multi for nine targets and all formats");
      r.nontriv();
      bool ok = true;
      for (IntFormat f : FORMATS) {
        ok &= multi_int<int8_t>(r, vals, f);
        ok &= multi_int<uint16_t>(r, vals, f);
        ok &= multi_int<int32_t>(r, vals, f);
        ok &= multi_int<int64_t>(r, vals, f);
        ok &= multi_int<unsigned long long>(r, vals, f);
        ok &= multi_int<char>(r, vals, f);
      }
      ok &= multi_float<float>(r, vals);
      ok &= multi_float<double>(r, vals);
      ok &= multi_float<long double>(r, vals);
      if (ok) r.ok(len == 0 ? "option not supplied" : "get_multi: all values in order, or invalid_argument");
    }
  }
  // (e) constructor forms
  {
    static const char* ARGV3[] = {"a", "--n=1", "-xy"};
    for (size_t n = 0; n <= 3; n++) {
      if (!r.take()) continue;
      if (r.wants_desc()) r.desc(vf::fmt("Arguments(argv, %zu) on a three-element argv (const char* const* and char**), Arguments(nullptr, 0)", n));
      r.nontriv();
      std::vector<std::string> tokens(ARGV3, ARGV3 + n);
      RefArgs want = ref_classify(tokens);
      bool ok = true;
      Arguments a(ARGV3, n);
      if (!(snapshot(a) == want)) { ok = false; r.fail("constructors:argv-count", [&] { return vf::fmt("Arguments(argv, %zu) stored ", n) + ref_str(snapshot(a)) + ", reference " + ref_str(want); }); }
      char s0[] = "a", s1[] = "--n=1", s2[] = "-xy";
      char* margv[] = {s0, s1, s2, nullptr};
      char** mp = margv;
      Arguments b(mp, n);
      if (!(snapshot(b) == want)) { ok = false; r.fail("constructors:argv-count", [&] { return vf::fmt("Arguments(char** argv, %zu) stored ", n) + ref_str(snapshot(b)); }); }
      if (strcmp(s0, "a") || strcmp(s1, "--n=1") || strcmp(s2, "-xy")) { ok = false; r.fail("constructors:argv-modified", [&] { return std::string("Arguments(char** argv, n) changed the caller's strings"); }); }
      if (n == 0) {
        Arguments c((const char* const*)nullptr, 0);
        if (!(snapshot(c) == want)) { ok = false; r.fail("constructors:argv-count", [&] { return "Arguments(nullptr, 0) stored " + ref_str(snapshot(c)); }); }
      }
      if (ok) r.ok("argv constructor respects the count");
    }
    if (r.take()) {
      if (r.wants_desc()) r.desc("Arguments(\"literal\"), Arguments(std::string&&), Arguments(const std::string&) on the same command line; the caller's vector is left alone by the copying constructor");
      r.nontriv();
      bool ok = true;
      std::vector<std::string> tokens = {"a", "--n=1", "-xy", "b c"};
      RefArgs want = ref_classify(tokens);
      Arguments a("a --n=1 -xy 'b c'");
      std::string line = "a --n=1 -xy 'b c'";
      Arguments b(line);
      Arguments c(std::string("a --n=1 -xy 'b c'"));
      if (!(snapshot(a) == want) || !(snapshot(b) == want) || !(snapshot(c) == want)) { ok = false; r.fail("constructors:string-forms-differ", [&] { return "literal: " + ref_str(snapshot(a)) + "; lvalue: " + ref_str(snapshot(b)) + "; rvalue: " + ref_str(snapshot(c)) + "; reference " + ref_str(want); }); }
      std::vector<std::string> copy = tokens;
      const std::vector<std::string>& cref = copy;
      Arguments d(cref);
      if (copy != tokens || line != "a --n=1 -xy 'b c'") { ok = false; r.fail("constructors:argument-modified", [&] { return "Arguments(const vector&) / Arguments(const string&) changed the caller's object: " + list_str(copy) + " / " + vf::show(line); }); }
      if (!(snapshot(d) == want)) { ok = false; r.fail("constructors:string-forms-differ", [&] { return "Arguments(const vector&) stored " + ref_str(snapshot(d)); }); }
      if (ok) r.ok("constructor forms agree");
    }
  }
  r.bound = "call forms: 14 texts x 4 formats x 14 integer targets x up to 28 ways of writing the call (identifier literal/const char*/char*/std::string lvalue, const&, rvalue; positions as size_t/int/long/unsigned short/unsigned char; default given or not; format explicit or defaulted; get_multi) and 3 floating-point targets x 16 ways (nullopt, value, optional, NaN default); absent name/position on 3 objects x 17 targets x 9-12 boundary defaults (min, max, -1, NaN, infinities, -0.0, denormal) x 4 formats; present-but-empty option (--x, --x=, -x, -yx) x 17 targets x {get, get_multi, get with default}; get_multi on every list of 0..3 values from {1, \"\", x, 300, -1, 0x10, 1.5} x 9 targets x 4 formats; Arguments(argv, 0..3), Arguments(nullptr, 0), char**, string literal / lvalue / rvalue";
}

// ---------------------------------------------------------------------------------------------------
// sizes
// ---------------------------------------------------------------------------------------------------
VF_SECTION(sizes, 4, 4, 300) {
  r.note("sizes");
  std::vector<size_t> NS = {0, 1, 2, 3, 15, 16, 17, 255, 256, 257, 1000, 4096};
  if (r.thorough()) { NS.push_back(65535); NS.push_back(65536); NS.push_back(65537); }
  // shape 0: N positionals; 1: one option N times; 2: N distinct options; 3: one flag group of N letters; 4: mixture
  for (size_t N : NS) for (int shape = 0; shape < 5; shape++) for (int ctor = 0; ctor < 4; ctor++) for (int skip = 0; skip < 4; skip++) {
    if (!r.take()) continue;
    if (r.wants_desc()) r.desc(vf::fmt("%zu tokens of shape %d (0 positionals, 1 one option repeated, 2 distinct options, 3 one flag group, 4 mixture) through constructor %d; everything read except %s; assert_none_unused()", N, shape, ctor, skip == 0 ? "nothing" : skip == 1 ? "the first" : skip == 2 ? "the middle one" : "the last"));
    std::vector<std::string> tokens;
    static const char LETTERS[] = "abcdefghijklmnopqrstuvwxyzABCDEFGHIJKLMNOPQRSTUVWXYZ0123456789";
    switch (shape) {
      case 0: for (size_t i = 0; i < N; i++) tokens.push_back(vf::fmt("p%zu", i)); break;
      case 1: for (size_t i = 0; i < N; i++) tokens.push_back(vf::fmt("--r=%zu", i)); break;
      case 2: for (size_t i = 0; i < N; i++) tokens.push_back(vf::fmt("--o%zu=%zu", i, i * 7)); break;
      case 3: if (N) { std::string g = "-"; for (size_t i = 0; i < N; i++) g += LETTERS[i % 62]; tokens.push_back(g); } break;
      case 4: for (size_t i = 0; i < N; i++) tokens.push_back(i % 3 == 0 ? vf::fmt("%zu", i) : i % 3 == 1 ? vf::fmt("--r=%zu", i) : vf::fmt("--o%zu", i)); break;
    }
    RefArgs want = ref_classify(tokens);
    r.nontriv();
    std::optional<Arguments> a;
    std::string line;
    std::string oc = vf::outcome([&] {
      switch (ctor) {
        case 0: a.emplace(tokens); break;
        case 1: { std::vector<const char*> argv; for (auto& t : tokens) argv.push_back(t.c_str()); a.emplace(argv.data(), argv.size()); break; }
        case 2: { std::vector<std::string> copy = tokens; a.emplace(std::move(copy)); break; }
        case 3: { for (size_t i = 0; i < tokens.size(); i++) line += (i % 5 == 4 ? "\t" : i ? " " : "") + (i % 4 == 1 ? "\"" + tokens[i] + "\"" : tokens[i]); a.emplace(line); break; }
      }
    });
    bool ok = true;
    if (oc != "ok" || !(snapshot(*a) == want)) { r.fail("sizes:classification", [&] { return vf::fmt("%zu tokens of shape %d through constructor %d -> ", N, shape, ctor) + oc + (a ? " stored " + ref_str(snapshot(*a)) : "") + ", reference " + ref_str(want); }); continue; }
    // read everything through the public getters (typed where the text is a numeral), except one supplied argument
    size_t total = want.positional.size() + want.named_total;
    size_t skip_at = skip == 0 ? SIZE_MAX : skip == 1 ? 0 : skip == 2 ? total / 2 : total - 1;
    size_t at = 0;
    bool skipped = false;
    for (size_t i = 0; i < want.positional.size(); i++, at++) {
      if (at == skip_at) { skipped = true; continue; }
      std::string v;
      std::string o2 = vf::outcome([&] { v = a->get<std::string>(i); });
      if (o2 != "ok" || v != want.positional[i]) { ok = false; r.fail("sizes:get<string>(position)", [&] { return vf::fmt("%zu tokens of shape %d: get<string>(%zu) -> ", N, shape, i) + o2 + " " + short_show(v); }); break; }
      if (shape == 4) {
        uint64_t n = 0;
        o2 = vf::outcome([&] { n = a->get<uint64_t>(i, IntFormat::DECIMAL); });
        if (o2 != "ok" || vf::fmt("%llu", (unsigned long long)n) != want.positional[i]) { ok = false; r.fail("sizes:get<integer>(position)", [&] { return vf::fmt("%zu tokens of shape %d: get<uint64_t>(%zu, DECIMAL) -> ", N, shape, i) + o2 + vf::fmt(" %llu, text ", (unsigned long long)n) + short_show(want.positional[i]); }); break; }
      }
    }
    for (auto& kv : want.named) {
      // a name whose instances contain the skipped one is not read at all
      if (skip_at >= at && skip_at < at + kv.second.size()) { skipped = true; at += kv.second.size(); continue; }
      at += kv.second.size();
      std::vector<std::string> v;
      std::string o2 = vf::outcome([&] { v = a->get_multi<std::string>(kv.first); });
      if (o2 != "ok" || v != kv.second) { ok = false; r.fail("sizes:get_multi", [&] { return vf::fmt("%zu tokens of shape %d: get_multi<string>(%s) -> ", N, shape, vf::show(kv.first).c_str()) + o2 + " " + list_str(v) + ", reference " + list_str(kv.second); }); break; }
      if (shape == 1) {
        std::vector<uint32_t> nv;
        o2 = vf::outcome([&] { nv = a->get_multi<uint32_t>(kv.first, IntFormat::DECIMAL); });
        bool same = o2 == "ok" && nv.size() == kv.second.size();
        for (size_t i = 0; same && i < nv.size(); i++) same = nv[i] == i;
        if (!same) { ok = false; r.fail("sizes:get_multi", [&] { return vf::fmt("%zu tokens of shape %d: get_multi<uint32_t>(\"r\", DECIMAL) -> %s with %zu values, expected 0..%zu in order", N, shape, o2.c_str(), nv.size(), N - 1); }); break; }
      }
    }
    if (!ok) continue;
    std::string o3 = vf::outcome([&] { a->assert_none_unused(); });
    if (o3 != (skipped ? "invalid_argument" : "ok")) { r.fail("sizes:assert_none_unused", [&] { return vf::fmt("%zu tokens of shape %d through constructor %d, everything read except %s: assert_none_unused() -> ", N, shape, ctor, skipped ? "one argument" : "nothing") + o3; }); continue; }
    r.ok(skipped ? "one argument unread: invalid_argument" : "everything read: no throw");
  }
  // long values / tokens
  std::vector<size_t> LENS = {0, 1, 14, 15, 16, 17, 22, 23, 24, 255, 256, 257, 4095, 4096, 4097, 65535, 65536};
  if (r.thorough()) { LENS.push_back(1 << 20); LENS.push_back((1 << 24) + 1); }
  for (size_t len : LENS) for (int where = 0; where < 4; where++) for (int ctor = 0; ctor < 4; ctor++) {
    if (!r.take()) continue;
    if (r.wants_desc()) r.desc(vf::fmt("a %zu-byte %s through constructor %d: stored and returned unchanged", len, where == 0 ? "positional" : where == 1 ? "option value" : where == 2 ? "option name" : "value after a second '='", ctor));
    std::string body(len, 'v');
    for (size_t i = 0; i < len; i += 7) body[i] = (char)('a' + (i / 7) % 26);
    std::string tok = where == 0 ? body : where == 1 ? "--long=" + body : where == 2 ? "--" + body + "=1" : "--long=" + body + "=" + body;
    if (where == 2 && len == 0) tok = "--=1";
    std::vector<std::string> tokens = {"first", tok, "last"};
    RefArgs want = ref_classify(tokens);
    if (ctor == 3 && where == 0 && len == 0) { r.ok("don't-care line: empty quoted argument (not built)"); continue; }
    r.nontriv();
    std::optional<Arguments> a;
    std::string oc = vf::outcome([&] {
      switch (ctor) {
        case 0: a.emplace(tokens); break;
        case 1: { std::vector<const char*> argv; for (auto& t : tokens) argv.push_back(t.c_str()); a.emplace(argv.data(), argv.size()); break; }
        case 2: { std::vector<std::string> copy = tokens; a.emplace(std::move(copy)); break; }
        case 3: a.emplace("first '" + tok + "' last"); break;
      }
    });
    if (oc != "ok" || !(snapshot(*a) == want)) { r.fail("sizes:long-token", [&] { return vf::fmt("%zu-byte token (kind %d) through constructor %d -> ", len, where, ctor) + oc + (a ? " stored " + ref_str(snapshot(*a)) : "") + ", reference " + ref_str(want); }); continue; }
    bool ok = true;
    for (size_t i = 0; i < want.positional.size(); i++) {
      std::string v = a->get<std::string>(i);
      if (v != want.positional[i]) { ok = false; r.fail("sizes:long-token", [&] { return vf::fmt("%zu-byte token (kind %d): get<string>(%zu) returned ", len, where, i) + short_show(v); }); }
      // a long non-numeral never converts
      std::string o2 = vf::outcome([&] { a->get<int32_t>(i); });
      std::string o3 = vf::outcome([&] { a->get<double>(i, 1.0); });
      if (o2 != "invalid_argument" || o3 != "invalid_argument") { ok = false; r.fail("sizes:long-token", [&] { return vf::fmt("%zu-byte non-numeral positional %zu: get<int32_t> -> %s, get<double>(.., 1.0) -> %s", want.positional[i].size(), i, o2.c_str(), o3.c_str()); }); }
    }
    for (auto& kv : want.named) {
      std::string v = "?";
      std::string o2 = vf::outcome([&] { v = a->get<std::string>(kv.first, true); });
      if (o2 != "ok" || v != kv.second[0]) { ok = false; r.fail("sizes:long-token", [&] { return vf::fmt("%zu-byte token (kind %d): get<string>(name, true) -> ", len, where) + o2 + " " + short_show(v); }); }
    }
    std::string o4 = vf::outcome([&] { a->assert_none_unused(); });
    if (o4 != "ok") { ok = false; r.fail("sizes:assert_none_unused", [&] { return vf::fmt("%zu-byte token (kind %d): everything read, assert_none_unused() -> ", len, where) + o4; }); }
    // the unread variant: the exception message has to carry a long name
    Arguments b(tokens);
    b.get<std::string>((size_t)0);
    std::string o5 = vf::outcome([&] { b.assert_none_unused(); });
    if (o5 != "invalid_argument") { ok = false; r.fail("sizes:assert_none_unused", [&] { return vf::fmt("%zu-byte token (kind %d): only the first positional read, assert_none_unused() -> ", len, where) + o5; }); }
    if (ok) r.ok("long token stored and returned unchanged");
  }
  r.bound = vf::fmt("%zu token counts (0..%zu) x 5 shapes (positionals, one option repeated, distinct options, one flag group, mixture) x 4 constructors x {everything read, first / middle / last argument left unread}; %zu token lengths (0..%zu bytes) x {positional, option value, option name, value containing '='} x 4 constructors", NS.size(), NS.back(), LENS.size(), LENS.back());
}

// ---------------------------------------------------------------------------------------------------
// execution contexts
// ---------------------------------------------------------------------------------------------------
VF_SECTION(ctx, 4, 4, 120) {
  r.note("contexts");
  static const int ERRNOS[] = {0, ERANGE, EINVAL, EINTR, ENOMEM, EAGAIN, EDOM, EOVERFLOW};
  static const char* ITEXTS[] = {"10", "-1", "", "300", "5x", "0x10", "65536", "18446744073709551616", "-129"};
  static const char* FTEXTS[] = {"1.5", "", "1e3", "x", "1e999", "-0.25", "1e-400"};
  for (int cx = 0; cx < NCX; cx++) {
    for (int en : ERRNOS) {
      // integer reads
      for (const char* t : ITEXTS) for (IntFormat f : FORMATS) {
        if (!r.take()) continue;
        std::string text = t;
        if (r.wants_desc()) r.desc(vf::fmt("%s, errno = %d before each call: integer reads of text %s fmt %s (int8, uint16, int32, int64, unsigned long long; five access paths)", cx_name[cx], en, vf::show(text).c_str(), fmt_name(f)));
        r.nontriv();
        RefNum ref = ref_numeral(text, f);
        Arguments named(std::vector<std::string>{"--x=" + text});
        bool can_pos = text.empty() || text[0] != '-';
        std::optional<Arguments> pos;
        if (can_pos) pos.emplace(std::vector<std::string>{text});
        bool ok = true;
        for (int via = 0; via < NVIA; via++) {
          if ((via == VIA_POSITIONAL || via == VIA_POS_DEFAULT) && !can_pos) continue;
          run_ctx(cx, en, [&] { if (!int_read<int8_t>(r, "context:get<integer>", named, pos ? &*pos : nullptr, text, ref, f, (Via)via, false)) ok = false; });
          run_ctx(cx, en, [&] { if (!int_read<uint16_t>(r, "context:get<integer>", named, pos ? &*pos : nullptr, text, ref, f, (Via)via, false)) ok = false; });
          run_ctx(cx, en, [&] { if (!int_read<int32_t>(r, "context:get<integer>", named, pos ? &*pos : nullptr, text, ref, f, (Via)via, false)) ok = false; });
          run_ctx(cx, en, [&] { if (!int_read<int64_t>(r, "context:get<integer>", named, pos ? &*pos : nullptr, text, ref, f, (Via)via, false)) ok = false; });
          run_ctx(cx, en, [&] { if (!int_read<unsigned long long>(r, "context:get<integer>", named, pos ? &*pos : nullptr, text, ref, f, (Via)via, false)) ok = false; });
        }
        if (ok) r.ok(std::string("integer reads: ") + cx_name[cx]);
      }
      // floating-point reads
      for (const char* t : FTEXTS) {
        if (!r.take()) continue;
        std::string text = t;
        if (r.wants_desc()) r.desc(vf::fmt("%s, errno = %d before each call: float/double/long double reads of text %s (five access paths)", cx_name[cx], en, vf::show(text).c_str()));
        r.nontriv();
        RefFloat ref = ref_float(text);
        Arguments named(std::vector<std::string>{"--x=" + text});
        bool can_pos = text.empty() || text[0] != '-';
        std::optional<Arguments> pos;
        if (can_pos) pos.emplace(std::vector<std::string>{text});
        bool ok = true;
        for (int via = 0; via < NVIA; via++) {
          if ((via == VIA_POSITIONAL || via == VIA_POS_DEFAULT) && !can_pos) continue;
          run_ctx(cx, en, [&] { if (!float_read<float>(r, "context:get<float>", named, pos ? &*pos : nullptr, text, ref, via, false)) ok = false; });
          run_ctx(cx, en, [&] { if (!float_read<double>(r, "context:get<float>", named, pos ? &*pos : nullptr, text, ref, via, false)) ok = false; });
          run_ctx(cx, en, [&] { if (!float_read<long double>(r, "context:get<float>", named, pos ? &*pos : nullptr, text, ref, via, false)) ok = false; });
        }
        if (ok) r.ok(std::string("floating-point reads: ") + cx_name[cx]);
      }
      // construction, string/bool/absent getters and assert_none_unused
      for (int variant = 0; variant < 4; variant++) {
        if (!r.take()) continue;
        if (r.wants_desc()) r.desc(vf::fmt("%s, errno = %d: construct from a command line, read %s, assert_none_unused()", cx_name[cx], en, variant == 0 ? "nothing" : variant == 1 ? "everything" : variant == 2 ? "everything but the flag" : "everything but the last positional"));
        r.nontriv();
        std::string line = "in.bin --count=3\t-v 'out file' --count=4 --name=\"a b\"";
        std::vector<std::string> tokens = {"in.bin", "--count=3", "-v", "out file", "--count=4", "--name=a b"};
        RefArgs want = ref_classify(tokens);
        std::string report;
        run_ctx(cx, en, [&] {
          std::optional<Arguments> a;
          std::string oc = vf::outcome([&] { a.emplace(line); });
          if (oc != "ok" || !(snapshot(*a) == want)) { report = "Arguments(" + vf::show(line) + ") -> " + oc + (a ? " stored " + ref_str(snapshot(*a)) : ""); return; }
          std::string absent = vf::outcome([&] { a->get<int>("missing"); }) + "/" + vf::outcome([&] { a->get<double>((size_t)7); }) + "/" + vf::outcome([&] { if (a->get<int>("missing", 5) != 5 || a->get<bool>("missing") || !a->get<std::string>("missing").empty()) throw std::runtime_error("default"); });
          if (absent != "out_of_range/out_of_range/ok") { report = "absent getters -> " + absent; return; }
          if (variant >= 1) {
            std::string got;
            std::string oc2 = vf::outcome([&] {
              got += a->get<std::string>((size_t)0) + "|";
              if (variant != 3) got += a->get<std::string>((size_t)1) + "|";
              for (uint16_t c : a->get_multi<uint16_t>("count")) got += vf::fmt("%u,", (unsigned)c);
              if (variant != 2) got += a->get<bool>("v") ? "|v" : "|no-v";
              got += "|" + a->get<std::string>("name", true);
            });
            std::string expect = std::string("in.bin|") + (variant != 3 ? "out file|" : "") + "3,4," + (variant != 2 ? "|v" : "") + "|a b";
            if (oc2 != "ok" || got != expect) { report = "getters -> " + oc2 + " " + vf::show(got) + ", expected " + vf::show(expect); return; }
          }
          std::string oc3 = vf::outcome([&] { a->assert_none_unused(); });
          if (oc3 != (variant == 1 ? "ok" : "invalid_argument")) report = "assert_none_unused() -> " + oc3 + (variant == 1 ? " though everything was read" : " though something was never read");
        });
        if (!report.empty()) r.fail("context:construct-read-assert", [&] { return vf::fmt("%s, errno = %d: ", cx_name[cx], en) + report; });
        else r.ok(std::string("construct/read/assert: ") + cx_name[cx]);
      }
    }
  }
  r.bound = "6 execution contexts (plain, catch handler, destructor during unwinding, the same started inside a handler, fresh thread, fresh thread unwinding) x 8 errno values before every call x {9 integer texts x 4 formats x 5 targets x 5 access paths, 7 floating-point texts x 3 targets x 5 paths, construction from a quoted command line + absent getters + 4 read sets + assert_none_unused}";
}
