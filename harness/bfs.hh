// bfs.hh — bookkeeping for E-BFS harnesses (C12, C13): explicit-state breadth-first search over
// real objects that cannot be copied.
//
// A state is the operation history that first reached it.  Histories are stored as a parent-pointer
// tree (parent state index + operation), so a state costs a few bytes and its history is rebuilt on
// demand.  States are identified by a canonical key computed by the harness from the live object
// (white-box).  Indices are handed out in discovery order, which is deterministic, so several shard
// processes that run the same search agree on every index ("state i" means the same thing in every
// shard and in a --only replay).
//
// Parallelism (LevelSearch): a section is one shard for check.py; the search itself is level-
// synchronous.  For every BFS level the process forks K workers; worker j expands the frontier
// states lo+j, lo+j+K, ... completely (replay, per-state oracle, every operation) and reports the
// successors that are not yet in the table (it holds a copy-on-write snapshot of the table as of the
// start of the level).  The parent merges the reports in (state index, emission order) — the same
// order a sequential search would produce — so the numbering does not depend on K or on timing.
// Workers run with r.slot pointing at their own shared slot, so r.note()/r.beat() in harness code
// work unchanged; a worker that dies (ASan abort, SIGSEGV) is turned into a violation by the
// parent, attributed to the state it had published, and its slice is resumed behind that state.
// Each worker ends with a LeakSanitizer check (workers leave through _exit, which skips LSan's own).
// In --only k mode the search runs up to the level that contains state k and reports only on k.
#pragma once
#include <errno.h>
#include <sanitizer/lsan_interface.h>
#include <stdint.h>
#include <sys/mman.h>
#include <sys/prctl.h>
#include <sys/stat.h>
#include <sys/wait.h>
#include <unistd.h>

#include <string>
#include <utility>
#include <vector>

#include "vf.hh"

namespace bfs {

inline uint64_t mix64(uint64_t x) {
  x += 0x9E3779B97F4A7C15ull;
  x = (x ^ (x >> 30)) * 0xBF58476D1CE4E5B9ull;
  x = (x ^ (x >> 27)) * 0x94D049BB133111EBull;
  return x ^ (x >> 31);
}
struct HashU64 {
  uint64_t operator()(uint64_t k) const { return mix64(k); }
};
struct HashStr {
  uint64_t operator()(const std::string& s) const {
    uint64_t h = 0xCBF29CE484222325ull;
    for (unsigned char c : s) h = (h ^ c) * 0x100000001B3ull;
    return mix64(h);
  }
};

// Open-addressing set of keys with insertion-order indices (never iterated in hash order).
template <class Key, class Hash>
class KeySet {
public:
  std::vector<Key> keys;
  KeySet() : slots(1024, 0), mask(1023) {}
  size_t size() const { return keys.size(); }
  int64_t find(const Key& k) const {
    for (size_t p = Hash()(k) & mask;; p = (p + 1) & mask) {
      uint32_t s = slots[p];
      if (!s) return -1;
      if (keys[s - 1] == k) return s - 1;
    }
  }
  // returns (index, true if new)
  std::pair<uint32_t, bool> add(const Key& k) {
    if ((keys.size() + 1) * 2 > slots.size()) grow();
    for (size_t p = Hash()(k) & mask;; p = (p + 1) & mask) {
      uint32_t s = slots[p];
      if (!s) {
        keys.push_back(k);
        slots[p] = (uint32_t)keys.size();
        return {(uint32_t)keys.size() - 1, true};
      }
      if (keys[s - 1] == k) return {s - 1, false};
    }
  }

private:
  std::vector<uint32_t> slots;
  size_t mask;
  void grow() {
    std::vector<uint32_t> n(slots.size() * 2, 0);
    size_t m = n.size() - 1;
    for (size_t i = 0; i < keys.size(); i++) {
      size_t p = Hash()(keys[i]) & m;
      while (n[p]) p = (p + 1) & m;
      n[p] = (uint32_t)i + 1;
    }
    slots.swap(n);
    mask = m;
  }
};

// The state table: key -> index, index -> (parent, op, depth).
template <class Key, class Hash>
class Table {
public:
  struct Rec {
    uint32_t parent, op;
    uint16_t depth;
    uint16_t flags;  // harness-defined
  };
  KeySet<Key, Hash> set;
  std::vector<Rec> recs;
  uint32_t max_depth = 0;

  size_t size() const { return recs.size(); }
  const Key& key(uint32_t i) const { return set.keys[i]; }
  bool contains(const Key& k) const { return set.find(k) >= 0; }
  // adds the initial state (no parent)
  uint32_t add_root(const Key& k) {
    auto [i, fresh] = set.add(k);
    if (fresh) recs.push_back({UINT32_MAX, 0, 0, 0});
    return i;
  }
  // returns (index, true if the state is new)
  std::pair<uint32_t, bool> add(const Key& k, uint32_t parent, uint32_t op) {
    auto [i, fresh] = set.add(k);
    if (fresh) {
      uint16_t d = (uint16_t)(recs[parent].depth + 1);
      recs.push_back({parent, op, d, 0});
      if (d > max_depth) max_depth = d;
    }
    return {i, fresh};
  }
  // operations from the initial state to state i, oldest first
  void history(uint32_t i, std::vector<uint32_t>& out) const {
    out.clear();
    for (uint32_t s = i; recs[s].parent != UINT32_MAX; s = recs[s].parent) out.push_back(recs[s].op);
    for (size_t a = 0, b = out.size(); a + 1 < b; a++, b--) std::swap(out[a], out[b - 1]);
  }
};

// ---- serialisation of a worker's vf::Run accumulators ---------------------------------------------

inline std::string esc(const std::string& s) {
  std::string o;
  for (char c : s) {
    if (c == '\\') o += "\\\\";
    else if (c == '\n') o += "\\n";
    else if (c == '\t') o += "\\t";
    else o += c;
  }
  return o;
}
inline std::string unesc(const std::string& s) {
  std::string o;
  for (size_t i = 0; i < s.size(); i++) {
    if (s[i] == '\\' && i + 1 < s.size()) {
      char c = s[++i];
      o += (c == 'n') ? '\n' : (c == 't') ? '\t' : c;
    } else o += s[i];
  }
  return o;
}

inline void reset_accumulators(vf::Run& r) {
  r.evals = r.nontrivial = r.states = r.transitions = r.xchecked = 0;
  r.exhaustive = true;
  r.hist.clear();
  r.viol.clear();
  r.samples.clear();
  r.notes.clear();
  r.counters.clear();
}

inline void write_run(const vf::Run& r, int fd) {
  std::string o = vf::fmt("N\t%llu\t%llu\t%llu\t%llu\t%llu\t%d\n", (unsigned long long)r.evals, (unsigned long long)r.nontrivial, (unsigned long long)r.states,
      (unsigned long long)r.transitions, (unsigned long long)r.xchecked, r.exhaustive ? 1 : 0);
  for (auto& [k, v] : r.hist) o += vf::fmt("H\t%llu\t", (unsigned long long)v) + esc(k) + "\n";
  for (auto& [k, v] : r.counters) o += vf::fmt("C\t%llu\t", (unsigned long long)v) + esc(k) + "\n";
  for (auto& [k, v] : r.viol) o += vf::fmt("V\t%llu\t%llu\t", (unsigned long long)v.idx, (unsigned long long)v.count) + esc(v.key) + "\t" + esc(v.desc) + "\n";
  for (auto& x : r.samples) o += "S\t" + esc(x) + "\n";
  for (auto& x : r.notes) o += "O\t" + esc(x) + "\n";
  size_t off = 0;
  while (off < o.size()) {
    ssize_t n = ::write(fd, o.data() + off, o.size() - off);
    if (n < 0) { if (errno == EINTR) continue; _exit(4); }
    off += (size_t)n;
  }
}

inline std::string read_fd(int fd) {
  std::string s;
  struct stat st;
  if (fstat(fd, &st) != 0) return s;
  s.resize((size_t)st.st_size);
  size_t off = 0;
  while (off < s.size()) {
    ssize_t n = pread(fd, &s[off], s.size() - off, (off_t)off);
    if (n <= 0) { if (n < 0 && errno == EINTR) continue; break; }
    off += (size_t)n;
  }
  s.resize(off);
  return s;
}

inline void merge_run(vf::Run& r, const std::string& text) {
  size_t p = 0;
  while (p < text.size()) {
    size_t e = text.find('\n', p);
    if (e == std::string::npos) e = text.size();
    std::string line = text.substr(p, e - p);
    p = e + 1;
    std::vector<std::string> f;
    size_t q = 0;
    for (;;) {
      size_t t = line.find('\t', q);
      if (t == std::string::npos) { f.push_back(line.substr(q)); break; }
      f.push_back(line.substr(q, t - q));
      q = t + 1;
    }
    if (f[0] == "N" && f.size() >= 7) {
      r.evals += strtoull(f[1].c_str(), nullptr, 10);
      r.nontrivial += strtoull(f[2].c_str(), nullptr, 10);
      r.states += strtoull(f[3].c_str(), nullptr, 10);
      r.transitions += strtoull(f[4].c_str(), nullptr, 10);
      r.xchecked += strtoull(f[5].c_str(), nullptr, 10);
      if (f[6] != "1") r.exhaustive = false;
    } else if (f[0] == "H" && f.size() >= 3) {
      r.hist[unesc(f[2])] += strtoull(f[1].c_str(), nullptr, 10);
    } else if (f[0] == "C" && f.size() >= 3) {
      r.counters[unesc(f[2])] += strtoull(f[1].c_str(), nullptr, 10);
    } else if (f[0] == "V" && f.size() >= 5) {
      uint64_t idx = strtoull(f[1].c_str(), nullptr, 10), cnt = strtoull(f[2].c_str(), nullptr, 10);
      std::string key = unesc(f[3]);
      auto& v = r.viol[key];
      if (v.count == 0 || idx < v.idx) {
        v.key = key;
        v.idx = idx;
        v.desc = unesc(f[4]);
      }
      v.count += cnt;
    } else if (f[0] == "S" && f.size() >= 2) {
      if (r.samples.size() < 4) r.samples.push_back(unesc(f[1]));
    } else if (f[0] == "O" && f.size() >= 2) {
      std::string n = unesc(f[1]);
      bool have = false;
      for (auto& x : r.notes) if (x == n) have = true;
      if (!have) r.notes.push_back(n);
    }
  }
}

// ---- level-synchronous parallel search ------------------------------------------------------------

template <class Key, class Hash>
class LevelSearch {
public:
  struct Rec {
    uint32_t src, op;
    Key key;
  };
  // handed to the harness: reports one successor of the state being expanded
  struct Emit {
    const Table<Key, Hash>* tab;
    std::vector<Rec>* buf;
    uint32_t src;
    void operator()(uint32_t op, const Key& k) const {
      if (!tab->contains(k)) buf->push_back(Rec{src, op, k});
    }
  };

  vf::Run& r;
  Table<Key, Hash> tab;
  int nworkers;
  int worker_crashes = 0, max_worker_crashes = 6;
  uint32_t levels = 0;
  bool stopped_early = false;  // crash cap hit: the closure is not complete

  LevelSearch(vf::Run& run, int workers) : r(run), nworkers(workers < 1 ? 1 : workers) {}

  bool replaying() const { return r.only >= 0; }

  // expand(idx, emit, report): full processing of state idx inside a worker.  `report` is false
  // for the states a --only replay merely passes through.
  template <class Expand>
  void run(const Key& root, Expand&& expand) {
    static_assert(std::is_trivially_copyable<Key>::value, "keys travel through a file descriptor");
    vf::Slot* real_slot = r.slot;
    tab.add_root(root);
    uint32_t lo = 0, hi = 1;
    while (lo < hi && !stopped_early) {
      int K = nworkers;
      if ((uint32_t)K > hi - lo) K = (int)(hi - lo);
      vf::Slot* shared = (vf::Slot*)mmap(nullptr, sizeof(vf::Slot) * (size_t)K, PROT_READ | PROT_WRITE, MAP_SHARED | MAP_ANONYMOUS, -1, 0);
      if (shared == MAP_FAILED) { perror("bfs: mmap"); _exit(3); }
      std::vector<int> recfd((size_t)K), statfd((size_t)K);
      std::vector<pid_t> pid((size_t)K, -1);
      std::vector<uint32_t> resume((size_t)K, 0);
      r.note(vf::fmt("bfs-level %u: states [%u,%u) on %d workers", levels, lo, hi, K));
      real_slot->idx = lo;
      auto spawn = [&](int j) {
        fflush(stdout);
        fflush(stderr);
        pid_t parent = getpid();
        pid_t p = fork();
        if (p < 0) { perror("bfs: fork"); _exit(3); }
        if (p == 0) {
          prctl(PR_SET_PDEATHSIG, SIGKILL);
          if (getppid() != parent) _exit(0);
          r.slot = &shared[j];
          reset_accumulators(r);
          std::vector<Rec> buf;
          uint32_t first = lo + (uint32_t)j;
          for (uint32_t i = first; i < hi; i += (uint32_t)K) {
            if (i < resume[(size_t)j]) continue;
            r.cur = i;
            r.slot->idx = i;
            r.slot->beat = r.slot->beat + 1;
            buf.clear();
            Emit e{&tab, &buf, i};
            bool report = !replaying() || (uint64_t)r.only == i;
            expand(i, e, report);
            size_t bytes = buf.size() * sizeof(Rec), off = 0;
            while (off < bytes) {
              ssize_t n = ::write(recfd[(size_t)j], (const char*)buf.data() + off, bytes - off);
              if (n < 0) { if (errno == EINTR) continue; _exit(4); }
              off += (size_t)n;
            }
          }
          r.cur = first;
          r.note(vf::fmt("LeakSanitizer end-of-slice check, level %u slice %d/%d", levels, j, K));
          if (__lsan_do_recoverable_leak_check())
            r.fail("LeakSanitizer:leak", [&] { return vf::fmt("LeakSanitizer found leaked memory after the histories of BFS level %u, states %u, %u+%d, ... < %u were executed and destroyed (allocation stacks are in the shard's stderr)", levels, first, first, K, hi); });
          write_run(r, statfd[(size_t)j]);
          _exit(0);
        }
        pid[(size_t)j] = p;
      };
      for (int j = 0; j < K; j++) {
        recfd[(size_t)j] = memfd_create("bfs-rec", 0);
        statfd[(size_t)j] = memfd_create("bfs-stat", 0);
        if (recfd[(size_t)j] < 0 || statfd[(size_t)j] < 0) { perror("bfs: memfd_create"); _exit(3); }
        spawn(j);
      }
      // wait, relaying the workers' heartbeat to the supervisor's slot
      int alive = K;
      uint64_t last_sum = 0;
      while (alive > 0) {
        bool reaped = false;
        for (int j = 0; j < K; j++) {
          if (pid[(size_t)j] < 0) continue;
          int st = 0;
          pid_t w = waitpid(pid[(size_t)j], &st, WNOHANG);
          if (w == 0) continue;
          if (w < 0 && errno == EINTR) continue;
          reaped = true;
          pid[(size_t)j] = -1;
          alive--;
          if (w > 0 && WIFEXITED(st) && WEXITSTATUS(st) == 0) continue;
          // the worker died: attribute to the state it had published
          uint32_t at = (uint32_t)shared[j].idx;
          std::string note((const char*)shared[j].note);
          std::string fn = note.substr(0, note.find(' '));
          std::string how = WIFSIGNALED(st) ? vf::fmt("signal-%d", WTERMSIG(st)) : vf::fmt("exit-%d", WEXITSTATUS(st));
          r.cur = at;
          r.fail("crash:" + fn + ":" + how, [&] { return vf::fmt("worker process died (%s) while executing state %u [%s]; the sanitizer report is in the shard's stderr", how.c_str(), at, note.c_str()); });
          r.exhaustive = false;
          r.notes.push_back(vf::fmt("a worker died in state %u; that state's successors and the worker's counters up to that point are missing", at));
          if (++worker_crashes > max_worker_crashes) {
            stopped_early = true;
          } else if (!replaying() && at + (uint32_t)K < hi && at >= lo) {
            resume[(size_t)j] = at + (uint32_t)K;
            spawn(j);
            alive++;
          }
        }
        uint64_t sum = 0;
        for (int j = 0; j < K; j++) sum += shared[j].beat;
        if (sum != last_sum) {
          last_sum = sum;
          real_slot->beat = real_slot->beat + 1;
        }
        if (!reaped) usleep(3000);
      }
      // merge in sequential order: state index, then emission order
      std::vector<std::vector<Rec>> recs((size_t)K);
      for (int j = 0; j < K; j++) {
        std::string raw = read_fd(recfd[(size_t)j]);
        recs[(size_t)j].resize(raw.size() / sizeof(Rec));
        if (!raw.empty()) memcpy((void*)recs[(size_t)j].data(), raw.data(), recs[(size_t)j].size() * sizeof(Rec));
        merge_run(r, read_fd(statfd[(size_t)j]));
        close(recfd[(size_t)j]);
        close(statfd[(size_t)j]);
      }
      std::vector<size_t> pos((size_t)K, 0);
      for (uint32_t i = lo; i < hi; i++) {
        size_t j = (size_t)((i - lo) % (uint32_t)K);
        auto& v = recs[j];
        while (pos[j] < v.size() && v[pos[j]].src < i) pos[j]++;  // records of a state whose worker died half-way
        while (pos[j] < v.size() && v[pos[j]].src == i) {
          tab.add(v[pos[j]].key, i, v[pos[j]].op);
          pos[j]++;
        }
      }
      munmap(shared, sizeof(vf::Slot) * (size_t)K);
      levels++;
      if (replaying() && (uint64_t)r.only < hi) break;
      lo = hi;
      hi = (uint32_t)tab.size();
    }
    r.slot = real_slot;
  }
};

}  // namespace bfs
