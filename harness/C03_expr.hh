// C03_expr.hh (round 5; included by C03_expr.cc, C03_expr2.cc, C03_expr3.cc): TYPE of every operator expression and its VALUE CONSUMED IN WIDER CONTEXTS.
//
// Blind spot closed here: every other section assigns the value of the operator expression to a variable of the exposed
// type first (`T ret_w = ++c.w;`, `uint16_t got = bswap16(x);`).  That conversion truncates: an operator that returns the
// integer-PROMOTED result (65536 for ++ on a 16-bit wrapper holding 0xFFFF; `auto` return type deduced as int), or the
// un-narrowed double of a float wrapper, or a helper whose result carries garbage above its N bits, is invisible.
// The statement demands that the value the operator returns is exactly what the native operator yields: a native
// `++n` on uint16_t 0xFFFF yields 0 in EVERY context that consumes it (long long, double, comparison, template argument
// deduction, printf promotion), so the wrapper expression must too.
//
// For every wrapper type (6 x 8-bit, 6 x 16-bit, 6 x 32-bit, 6 x 64-bit, 3 float, 3 double) and every operator the
// expression is bound WITHOUT conversion (`auto&& rr = (++w);`) and then consumed as
//     static_cast<long double>, __int128 / long long / unsigned long long / double initialisation, unary plus (what
//     printf's default promotion sees: type and value), `rr + 0LL` (usual arithmetic conversions: type and value),
//     `rr == <long long>`, `rr < 0`, snprintf with the format of the promoted type, by-value template deduction
// on the wrapper and on a native shadow variable; every observation must agree.
//
// Expression TYPE rule (sound by construction: only what "behaves as a native value of the exposed type" entails):
// after removing cv/ref the type must be the exposed type T (any arithmetic type with the same size, signedness and
// floating-ness is accepted, e.g. long long for int64_t) — what the native postfix operators yield — or a class that is
// W or one of its bases, i.e. the object itself — what the native prefix / compound operators yield (an lvalue of the
// object; the wrapper's conversion operator then produces T).  Any other arithmetic type (int for a 16-bit wrapper,
// double for a float wrapper) is reported as `<op>:expression-type` at run time (std::is_same / type traits, no
// static_assert, so a changed tree is reported as a violation instead of breaking the build).
#pragma once
#include <stdarg.h>

#include <map>

#include "C03_base.hh"

namespace {

// (floating?, size, signed?) of an arithmetic type; -1 for everything else
template <class X>
constexpr int tcode() {
  using U = std::remove_cvref_t<X>;
  if constexpr (!std::is_arithmetic_v<U>) return -1;
  else return (std::is_floating_point_v<U> ? 1000 : 0) + (int)sizeof(U) * 10 + (std::is_signed_v<U> ? 1 : 0);
}
std::string tcode_name(int c) {
  if (c < 0) return "class/other";
  return vf::fmt("%s%s %d-bit", c >= 1000 ? "floating" : "integer", c >= 1000 ? "" : ((c % 10) ? " signed" : " unsigned"), ((c % 1000) / 10) * 8);
}

struct Wide {
  int tcode = 0, pcode = 0, scode = 0;  // type of the expression, of +expr, of expr + 0LL
  bool is_self = false;                 // the expression is (a base of) the wrapper object itself
  long double c = 0, plus = 0, sum = 0;
  bool has_int = false;
  __int128 i128 = 0;
  long long ll = 0;
  unsigned long long ull = 0;
  bool has_ull = false;
  double d = 0;
  bool eq = false, lt0 = false;
  char printed[64] = {0};
};

template <class P>
const char* fmt_for() {
  if constexpr (std::is_same_v<P, int>) return "%d";
  else if constexpr (std::is_same_v<P, unsigned>) return "%u";
  else if constexpr (std::is_same_v<P, long>) return "%ld";
  else if constexpr (std::is_same_v<P, unsigned long>) return "%lu";
  else if constexpr (std::is_same_v<P, long long>) return "%lld";
  else if constexpr (std::is_same_v<P, unsigned long long>) return "%llu";
  else if constexpr (std::is_same_v<P, float> || std::is_same_v<P, double>) return "%.17g";
  else if constexpr (std::is_same_v<P, long double>) return "%.21Lg";
  else return nullptr;
}

bool same_ld(long double a, long double b) { return (a != a && b != b) || (a == b && std::signbit(a) == std::signbit(b)); }
bool same_d(double a, double b) { return (a != a && b != b) || (a == b && std::signbit(a) == std::signbit(b)); }

// Consumes the expression `rr` (bound without conversion) in every wide context.  T = exposed type, W = the wrapper type
// (T itself on the native side).
template <class T, class W, class E>
Wide consume(E&& rr, long long ref) {
  using X = std::remove_cvref_t<E>;
  Wide o;
  o.tcode = tcode<X>();
  if constexpr (std::is_class_v<X>) o.is_self = std::is_base_of_v<X, W>;
  using P = std::remove_cvref_t<decltype(+rr)>;
  using S = std::remove_cvref_t<decltype(rr + 0LL)>;
  o.pcode = tcode<P>();
  o.scode = tcode<S>();
  o.c = static_cast<long double>(rr);
  o.plus = static_cast<long double>(+rr);
  o.sum = static_cast<long double>(rr + 0LL);
  double d = rr;
  o.d = d;
  // float -> integer conversions are only defined in range
  constexpr bool fp = std::is_floating_point_v<T> || std::is_floating_point_v<X>;
  bool in_ll = !fp || (o.c > -9.2e18L && o.c < 9.2e18L);
  bool in_ull = !fp || (o.c > -1.0L && o.c < 1.8e19L);
  if (in_ll) {
    o.has_int = true;
    long long ll = rr;
    __int128 i = rr;
    o.ll = ll;
    o.i128 = i;
  }
  if (in_ull) {
    o.has_ull = true;
    unsigned long long ull = rr;
    o.ull = ull;
  }
  o.eq = (rr == ref);
  o.lt0 = (rr < 0);
  if (const char* f = fmt_for<P>()) snprintf(o.printed, sizeof(o.printed), f, +rr);
  return o;
}

// the expression type rule (see the header comment)
template <class T>
bool type_ok(const Wide& w) {
  if (w.tcode >= 0) return w.tcode == tcode<T>();
  return w.is_self;
}
// everything else must agree with the native side
std::string wide_diff(const Wide& n, const Wide& w) {
  std::string s;
  auto add = [&](const char* ctx, const std::string& a, const std::string& b) { s += vf::fmt("%s%s: native %s, wrapper %s", s.empty() ? "" : "; ", ctx, a.c_str(), b.c_str()); };
  auto ld = [](long double x) { return std::string(vf::fmt("%.21Lg", x)); };
  if (!same_ld(n.c, w.c)) add("static_cast<long double>(expr)", ld(n.c), ld(w.c));
  if (!same_ld(n.plus, w.plus)) add("+expr (default promotion)", ld(n.plus), ld(w.plus));
  if (n.pcode != w.pcode) add("type of +expr", tcode_name(n.pcode), tcode_name(w.pcode));
  if (!same_ld(n.sum, w.sum)) add("expr + 0LL", ld(n.sum), ld(w.sum));
  if (n.scode != w.scode) add("type of expr + 0LL", tcode_name(n.scode), tcode_name(w.scode));
  if (!same_d(n.d, w.d)) add("double d = expr", vf::fmt("%.17g", n.d), vf::fmt("%.17g", w.d));
  if (n.has_int != w.has_int) add("value in long long range", n.has_int ? "yes" : "no", w.has_int ? "yes" : "no");
  else if (n.has_int) {
    if (n.ll != w.ll) add("long long x = expr", vf::fmt("%lld", n.ll), vf::fmt("%lld", w.ll));
    if (n.i128 != w.i128) add("__int128 x = expr", ld((long double)n.i128), ld((long double)w.i128));
  }
  if (n.has_ull != w.has_ull) add("value in unsigned long long range", n.has_ull ? "yes" : "no", w.has_ull ? "yes" : "no");
  else if (n.has_ull && n.ull != w.ull) add("unsigned long long x = expr", vf::fmt("%llu", n.ull), vf::fmt("%llu", w.ull));
  if (n.eq != w.eq) add("expr == (long long)native result", n.eq ? "true" : "false", w.eq ? "true" : "false");
  if (n.lt0 != w.lt0) add("expr < 0", n.lt0 ? "true" : "false", w.lt0 ? "true" : "false");
  if (strcmp(n.printed, w.printed)) add("snprintf with the promoted type's format", n.printed, w.printed);
  return s;
}

// x op= d with the expression bound without conversion
template <class T, class W, class X, class D>
inline Wide eval_binop(int op, X& x, D d, long long ref) {
#define VF_E(OPTOK)                     \
  {                                     \
    auto&& rr = (x OPTOK d);            \
    return consume<T, W>(rr, ref);      \
  }
  switch (op) {
    case OP_ADD: VF_E(+=)
    case OP_SUB: VF_E(-=)
    case OP_MUL: VF_E(*=)
    case OP_DIV: VF_E(/=)
    default: break;
  }
  if constexpr (std::is_integral_v<T> && std::is_integral_v<D>) {
    switch (op) {
      case OP_MOD: VF_E(%=)
      case OP_AND: VF_E(&=)
      case OP_OR: VF_E(|=)
      case OP_XOR: VF_E(^=)
      case OP_SHL: VF_E(<<=)
      case OP_SHR: VF_E(>>=)
      default: break;
    }
  }
#undef VF_E
  __builtin_trap();
}
template <class T, class W, class X>
inline Wide eval_incdec(int op, X& x, long long ref) {
  switch (op) {
    case OP_PREINC: {
      auto&& rr = (++x);
      return consume<T, W>(rr, ref);
    }
    case OP_POSTINC: {
      auto&& rr = (x++);
      return consume<T, W>(rr, ref);
    }
    case OP_PREDEC: {
      auto&& rr = (--x);
      return consume<T, W>(rr, ref);
    }
    default: {
      auto&& rr = (x--);
      return consume<T, W>(rr, ref);
    }
  }
}

template <class T>
long long ref_of(T n) {
  if constexpr (std::is_floating_point_v<T>) return (n > (T)-9.2e18 && n < (T)9.2e18) ? (long long)n : 0;
  else return (long long)n;
}

struct ETally {
  std::map<std::string, uint64_t> okc;
  void flush(vf::Run& r) {
    for (auto& [k, v] : okc) r.hist[k] += v;
  }
};

template <class T>
void judge(vf::Run& r, ETally& t, const char* wname, Order o, const char* opkey, const char* opname, uint64_t before_bits, const std::string& operand, const Wide& wn, const Wide& ww, uint64_t stored_w, uint64_t stored_n) {
  r.nontriv();
  auto head = [&] { return vf::fmt("%s (%s %d-bit) holding %s: %s", wname, order_name(o), (int)sizeof(T) * 8, show_val<T>(before_bits).c_str(), opname) + (operand.empty() ? "" : " operand " + operand); };
  bool good = true;
  if (!type_ok<T>(ww)) {
    good = false;
    r.fail(std::string(opkey) + ":expression-type", [&] { return head() + " | the expression has type " + tcode_name(ww.tcode) + "; the native operator yields the exposed type " + tcode_name(tcode<T>()) + " (or the object itself)"; });
  }
  std::string diff = wide_diff(wn, ww);
  if (!diff.empty()) {
    good = false;
    r.fail(std::string(opkey) + ":value-in-wider-context", [&] { return head() + " | " + diff; });
  }
  if (stored_w != stored_n) {
    good = false;
    r.fail(std::string(opkey) + ":stored-value", [&] { return head() + " | stored " + show_val<T>(stored_w) + ", native " + show_val<T>(stored_n); });
  }
  if (good) t.okc[std::string(wname) + "/" + opname + ":same-in-every-wide-context"]++;
}

// ---- value sets --------------------------------------------------------------------------------------------------
template <class T>
std::vector<T> limit_values() {
  std::vector<T> v;
  auto push = [&](T x) {
    for (T y : v)
      if (bits_of(y) == bits_of(x)) return;
    v.push_back(x);
  };
  if constexpr (std::is_integral_v<T>) {
    using L = std::numeric_limits<T>;
    for (int k = 0; k < 4; k++) {
      push(static_cast<T>(k));
      push(static_cast<T>(L::max() - k));
      push(static_cast<T>(L::min() + k));
      push(static_cast<T>(0 - k));
    }
    for (uint64_t x : {0x7Full, 0x80ull, 0xFFull, 0x100ull, 0x7FFFull, 0x8000ull, 0xFFFFull, 0x10000ull, 0x7FFFFFFFull, 0x80000000ull, 0xFFFFFFFFull, 0x100000000ull, 0x0102030405060708ull}) push(static_cast<T>(x));
  } else {
    using L = std::numeric_limits<T>;
    const T two24 = 16777216.0f;
    const T two53 = (T)9007199254740992.0;
    for (T x : {(T)0.0, (T)-0.0, (T)1, (T)-1, (T)0.5, (T)1.5, (T)-2.5, (T)0.1, (T)(two24 - 1), two24, (T)(two24 + 2), (T)-two24, (T)(two53 - 1), two53, (T)(two53 + 2), (T)-two53,
             L::max(), L::lowest(), L::min(), L::denorm_min(), L::infinity(), (T)-L::infinity(), (T)1e30, (T)4294967296.0, (T)65535.0})
      push(x);
  }
  return v;
}
// start values of ++ / --: every value for 8/16-bit, the limits and every 2^k neighbourhood otherwise
template <class T>
std::vector<T> incdec_values() {
  std::vector<T> v;
  if constexpr (std::is_integral_v<T> && sizeof(T) <= 2) {
    for (uint32_t x = 0; x < (1u << (8 * sizeof(T))); x++) v.push_back(from_bits<T>(x));
  } else if constexpr (std::is_integral_v<T>) {
    std::vector<uint64_t> b;
    for (T x : limit_values<T>()) b.push_back(bits_of(x));
    v = typed<T>(with_pow2(b, sizeof(T) * 8));
  } else {
    v = limit_values<T>();
    for (int k = 0; k <= 64; k++)
      for (int d = -1; d <= 1; d++)
        for (int sgn : {1, -1}) {
          T x = (T)sgn * ((T)ldexp(1.0, k) + (T)d);
          bool seen = false;
          for (T y : v) seen = seen || bits_of(y) == bits_of(x);
          if (!seen) v.push_back(x);
        }
  }
  return v;
}
template <class D>
std::vector<D> operands_of() {
  std::vector<D> v;
  auto push = [&](D x) {
    for (D y : v)
      if (y == x) return;
    v.push_back(x);
  };
  if constexpr (std::is_integral_v<D>) {
    using L = std::numeric_limits<D>;
    for (long long x : {0LL, 1LL, 2LL, 3LL, 7LL, 8LL, 15LL, 16LL, 255LL, 256LL, 65535LL, 65536LL}) push(static_cast<D>(x));
    push(L::max());
    push(static_cast<D>(L::max() - 1));
    push(L::min());
    push(static_cast<D>(L::min() + 1));
    push(static_cast<D>(-1));
    push(static_cast<D>(-2));
    if (sizeof(D) > 4) {
      for (long long x : {0x7FFFFFFFLL, 0x80000000LL, 0xFFFFFFFFLL, 0x100000000LL}) push(static_cast<D>(x));
    }
  } else {
    for (double x : {0.0, 1.0, 0.5, 1.5, -0.5, -1.0, 2.0, 0.1, -3.75, 255.5, 256.0, 65535.75, 65536.0, 4294967295.5, 16777216.0, 16777217.0, 9007199254740992.0, 1e10}) push(static_cast<D>(x));
  }
  return v;
}
const int kShiftCounts[] = {0, 1, 2, 7, 8, 9, 15, 16, 17, 24, 31, 32, 33, 63};

template <class D>
std::string show_operand(D d) {
  if constexpr (std::is_floating_point_v<D>) return vf::fmt("(double)%.17g", (double)d);
  else if constexpr (std::is_signed_v<D>) return vf::fmt("(%s%d)%lld", "int", (int)sizeof(D) * 8, (long long)d);
  else return vf::fmt("(%s%d)%llu", "uint", (int)sizeof(D) * 8, (unsigned long long)d);
}

template <class W, class T, class D>
void drive_binops(vf::Run& r, ETally& t, const char* wname, Order o, const std::vector<T>& stored) {
  Cell<W> cell;
  auto ops = operands_of<D>();
  for (int op = OP_ADD; op <= OP_SHR; op++) {
    if constexpr (std::is_floating_point_v<T> || std::is_floating_point_v<D>) {
      if (op > OP_DIV) break;
    }
    const bool shift = op == OP_SHL || op == OP_SHR;
    std::vector<D> ds;
    if (shift) {
      if constexpr (std::is_integral_v<D>)
        for (int c : kShiftCounts) ds.push_back(static_cast<D>(c));
    } else ds = ops;
    for (D d : ds) {
      for (T before : stored) {
        if (!r.take()) continue;
        if (!binop_defined<T, D>(op, before, d)) {
          t.okc[std::string(wname) + "/" + op_name[op] + ":native-undefined(not compared)"]++;
          continue;
        }
        if (r.wants_desc()) r.desc(vf::fmt("%s holding %s: %s operand %s, expression consumed in wide contexts", wname, show_val<T>(bits_of(before)).c_str(), op_name[op], show_operand<D>(d).c_str()));
        T n0 = before;
        {
          bool dummy;
          (void)apply_binop<T, T, D>(op, n0, d, dummy);
        }
        if constexpr (std::is_floating_point_v<T>) {
          if (n0 != n0) {  // NaN produced by arithmetic: payload is not part of the statement
            t.okc[std::string(wname) + "/" + op_name[op] + ":native-NaN(not compared)"]++;
            continue;
          }
        }
        long long ref = ref_of<T>(n0);
        T n = before;
        Wide wn = eval_binop<T, T, T, D>(op, n, d, ref);
        install<W, T>(cell, o, before);
        r.poison_errno();
        Wide ww = eval_binop<T, W, W, D>(op, cell.w, d, ref);
        judge<T>(r, t, wname, o, op_key[op], op_name[op], bits_of(before), show_operand<D>(d), wn, ww, bits_of(static_cast<T>(cell.w.load())), bits_of(n));
      }
    }
  }
}

template <class W, class T>
void drive_expr(vf::Run& r, const char* wname, Order o) {
  r.note(wname);
  ETally t;
  Cell<W> cell;
  // ---- ++ / -- ----
  auto idv = incdec_values<T>();
  for (int op = OP_PREINC; op <= OP_POSTDEC; op++) {
    for (T before : idv) {
      if (!r.take()) continue;
      if (!incdec_defined<T>(op, before)) {
        t.okc[std::string(wname) + "/" + op_name[op] + ":native-undefined(not compared)"]++;
        continue;
      }
      if (r.wants_desc()) r.desc(vf::fmt("%s holding %s: %s, expression consumed in wide contexts", wname, show_val<T>(bits_of(before)).c_str(), op_name[op]));
      T n0 = before;
      T r0;
      switch (op) {
        case OP_PREINC: r0 = ++n0; break;
        case OP_POSTINC: r0 = n0++; break;
        case OP_PREDEC: r0 = --n0; break;
        default: r0 = n0--; break;
      }
      long long ref = ref_of<T>(r0);
      T n = before;
      Wide wn = eval_incdec<T, T, T>(op, n, ref);
      install<W, T>(cell, o, before);
      r.poison_errno();
      Wide ww = eval_incdec<T, W, W>(op, cell.w, ref);
      judge<T>(r, t, wname, o, op_key[op], op_name[op], bits_of(before), "", wn, ww, bits_of(static_cast<T>(cell.w.load())), bits_of(n));
    }
  }
  // ---- w = v (derived class: temporary + copy assignment), converted_endian::operator=(v), load(), conversion ----
  auto lim = limit_values<T>();
  for (int form = 0; form < 4; form++) {
    static const char* fk[] = {"assign", "base_assign", "load", "conversion"};
    static const char* fn[] = {"operator=", "converted_endian::operator=", "load()", "operator ExposedT"};
    for (T v : (form >= 2 && sizeof(T) <= 2) ? incdec_values<T>() : lim) {
      if (!r.take()) continue;
      if constexpr (std::is_floating_point_v<T>) {
        if (v != v) continue;
      }
      if (r.wants_desc()) r.desc(vf::fmt("%s: %s with %s, expression consumed in wide contexts", wname, fn[form], show_val<T>(bits_of(v)).c_str()));
      long long ref = ref_of<T>(v);
      T prior = from_bits<T>(~bits_of(v));
      T n = prior;
      install<W, T>(cell, o, form >= 2 ? v : prior);
      Wide wn, ww;
      if (form <= 1) {
        auto&& rn = (n = v);
        wn = consume<T, T>(rn, ref);
      } else {
        n = v;
        auto&& rn = static_cast<const T&>(n);
        wn = consume<T, T>(rn, ref);
      }
      switch (form) {
        case 0: {
          auto&& rr = (cell.w = v);
          ww = consume<T, W>(rr, ref);
          break;
        }
        case 1: {
          auto&& rr = (base_of(cell.w) = v);
          ww = consume<T, W>(rr, ref);
          break;
        }
        case 2: {
          auto&& rr = static_cast<const W&>(cell.w).load();
          ww = consume<T, W>(rr, ref);
          if (ww.tcode < 0) ww.is_self = false;  // load() must yield a value, not the object
          break;
        }
        default: {
          auto&& rr = static_cast<const W&>(cell.w).operator T();
          ww = consume<T, W>(rr, ref);
          if (ww.tcode < 0) ww.is_self = false;
          break;
        }
      }
      judge<T>(r, t, wname, o, fk[form], fn[form], bits_of(form >= 2 ? v : prior), form >= 2 ? "" : show_val<T>(bits_of(v)), wn, ww, bits_of(static_cast<T>(cell.w.load())), bits_of(n));
    }
  }
  // ---- compound operators x operand types ----
  drive_binops<W, T, int>(r, t, wname, o, lim);
  drive_binops<W, T, unsigned>(r, t, wname, o, lim);
  drive_binops<W, T, long long>(r, t, wname, o, lim);
  drive_binops<W, T, unsigned long long>(r, t, wname, o, lim);
  drive_binops<W, T, double>(r, t, wname, o, lim);
  t.flush(r);
}

const char* kExprBound =
    "x: every operator expression bound without conversion and consumed as long double / __int128 / long long / unsigned long long / double, through unary plus (default promotion: type and value), "
    "expr + 0LL (type and value), expr == long long, expr < 0, snprintf with the promoted type's format, by-value template deduction; "
    "++x, x++, --x, x-- on EVERY value (8/16-bit) or on the type limits +-0..3, lane values and every +-(2^k-1), +-2^k, +-(2^k+1) (32/64-bit; floats: 2^k neighbourhoods k = 0..64, 2^24, 2^53, max, lowest, denormal, infinities); "
    "operator=, converted_endian::operator=, load(), conversion operator on the limit set (8/16-bit: load and conversion on every value); the ten compound operators on the limit set (20-29 stored values) x operand "
    "types int, unsigned, long long, unsigned long long (18-22 boundary operands each; shift counts {0,1,2,7,8,9,15,16,17,24,31,32,33,63} below the promoted width) and double (18 operands incl. fractional ones, for + - * /); "
    "expression type must be the exposed type or the wrapper object itself";

}  // namespace

