// C17 — command-line arguments are classified and type-checked exactly.
// E-ENUM on the real Arguments class.  This file: all token lists <= 5 over a 13-token grammar against a
// reference classifier (three constructors + the string constructor); shell renderings of command lines;
// every integer in [-70000,70000] x rendering x IntFormat x 8/16/32-bit target against a reference numeral
// grammar; boundary numerals (2^k-1, 2^k, 2^k+1 for every k <= 65, both signs), garbage and long texts x
// fourteen integer targets x five access paths; float literals against std::from_chars; absent and
// present-but-empty arguments for every target (C17_absent.hh).
// Round 2 adds C17_hist.cc (call histories, boundary positions/names, copies), C17_forms.cc (every way of
// writing a call), C17_over.cc (get_multi lists, constructors, getter subsets), C17_more.cc (sizes, contexts).
// Compiled with -fno-access-control: the private containers are read only to check that nothing
// beyond what the public getters show was stored ("classified exactly once") and which arguments are marked read.
#include "C17_common.hh"
#include "C17_absent.hh"

using namespace c17;

namespace {

const char* TOKENS[13] = {"a", "", "-", "--", "-x", "-xy", "-5", "--n", "--n=v", "--n=", "--=v", "--n=v=w", "--m=7"};
// names asked for: every name the grammar can produce plus strings that must NOT have become names
const char* NAMES[] = {"n", "m", "", "x", "y", "5", "a", "v", "w", "7", "xy", "n=v", "-", "--n", "=v"};

void classify_case(vf::Run& r, const std::vector<std::string>& tokens) {
  if (r.wants_desc()) r.desc("Arguments(" + list_str(tokens) + "): three token-list constructors, string constructor on the space-joined list, all getters");
  RefArgs want = ref_classify(tokens);
  r.nontriv();
  bool bad = false;
  auto ctx = [&] { return "tokens " + list_str(tokens) + ": "; };

  Arguments a(tokens);
  // before anything is read: throws iff something was supplied
  {
    std::string oc = vf::outcome([&] { a.assert_none_unused(); });
    bool supplied = !tokens.empty();
    if ((oc == "invalid_argument") != supplied || (oc != "ok" && oc != "invalid_argument")) {
      bad = true;
      r.fail("assert_none_unused:before-any-read", [&] { return ctx() + "assert_none_unused() before any getter: " + oc + (supplied ? " (arguments were supplied)" : " (nothing supplied)"); });
    }
  }
  // white box: exactly the reference's entries, nothing else
  RefArgs got = snapshot(a);
  if (!(got == want)) {
    bad = true;
    bool count_ok = got.positional.size() + got.named_total == want.positional.size() + want.named_total;
    r.fail(count_ok ? "classify:wrong-class-or-order" : "classify:not-exactly-once", [&] { return ctx() + "stored " + ref_str(got) + ", reference " + ref_str(want); });
  }
  for (auto& kv : a.named) if (kv.second.empty()) { bad = true; r.fail("classify:empty-name-entry", [&] { return ctx() + "name " + vf::show(kv.first) + " stored without an instance"; }); }
  // public getters
  for (size_t i = 0; i < want.positional.size(); i++) {
    std::string v;
    std::string oc = vf::outcome([&] { v = a.get<std::string>(i); });
    if (oc != "ok" || v != want.positional[i]) { bad = true; r.fail("get<string>(position):wrong-value", [&] { return ctx() + vf::fmt("get<string>(%zu) -> %s ", i, oc.c_str()) + vf::show(v) + ", reference " + vf::show(want.positional[i]); }); }
  }
  {
    size_t n = want.positional.size();
    std::string oc = vf::outcome([&] { a.get<std::string>(n); });
    if (oc != "out_of_range") { bad = true; r.fail("get<string>(position):absent-not-out_of_range", [&] { return ctx() + vf::fmt("get<string>(%zu) past the last positional -> %s", n, oc.c_str()); }); }
    std::string v = "?";
    oc = vf::outcome([&] { v = a.get<std::string>(n, false); });
    if (oc != "ok" || !v.empty()) { bad = true; r.fail("get<string>(position,false):absent-not-empty", [&] { return ctx() + vf::fmt("get<string>(%zu, false) -> %s ", n, oc.c_str()) + vf::show(v); }); }
  }
  size_t absent_asked = 0;
  for (const char* nm : NAMES) {
    std::string name = nm;
    auto it = want.named.find(name);
    std::vector<std::string> exp = it == want.named.end() ? std::vector<std::string>() : it->second;
    // every lookup of an absent name costs several internal exceptions (~10 us each under ASan): for
    // the 371293 five-token lists the getters are asked for every present name and for two absent
    // ones only; the white-box comparison above already shows that no other name was stored
    if (tokens.size() >= 5 && exp.empty() && absent_asked++ >= 2) continue;
    std::vector<std::string> multi;
    std::string oc = vf::outcome([&] { multi = a.get_multi<std::string>(name); });
    if (oc != "ok" || multi != exp) { bad = true; r.fail("get_multi<string>:wrong-values", [&] { return ctx() + "get_multi<string>(" + vf::show(name) + ") -> " + oc + " " + list_str(multi) + ", reference " + list_str(exp); }); }
    bool b = false;
    oc = vf::outcome([&] { b = a.get<bool>(nm); });
    if (oc != "ok") { bad = true; r.fail("get<bool>:throws", [&] { return ctx() + "get<bool>(" + vf::show(name) + ") -> " + oc; }); }
    else if (exp.size() <= 1 && b != (exp.size() == 1)) { bad = true; r.fail("get<bool>:wrong-value", [&] { return ctx() + "get<bool>(" + vf::show(name) + ") = " + (b ? "true" : "false") + vf::fmt(", option supplied %zu times", exp.size()); }); }
    if (exp.size() <= 1) {  // single-value getter on a repeated option: not settled by the statement, executed only
      std::string v = "?";
      oc = vf::outcome([&] { v = a.get<std::string>(name); });
      if (oc != "ok" || v != (exp.empty() ? std::string() : exp[0])) { bad = true; r.fail("get<string>(name):wrong-value", [&] { return ctx() + "get<string>(" + vf::show(name) + ") -> " + oc + " " + vf::show(v); }); }
      oc = vf::outcome([&] { v = a.get<std::string>(name, true); });
      if (exp.empty() ? oc != "out_of_range" : (oc != "ok" || v != exp[0])) { bad = true; r.fail("get<string>(name,true):wrong-result", [&] { return ctx() + "get<string>(" + vf::show(name) + ", true) -> " + oc; }); }
    } else {
      (void)vf::outcome([&] { a.get<std::string>(name); });
    }
  }
  // everything has been read now (positionals by get<string>(i), named by get_multi)
  {
    std::string oc = vf::outcome([&] { a.assert_none_unused(); });
    if (oc != "ok") { bad = true; r.fail("assert_none_unused:after-reading-everything", [&] { return ctx() + "assert_none_unused() after every argument was read -> " + oc; }); }
  }
  // the other constructors store the same thing
  {
    std::vector<const char*> argv;
    for (auto& t : tokens) argv.push_back(t.c_str());
    Arguments b(argv.data(), argv.size());
    std::vector<std::string> copy = tokens;
    Arguments c(std::move(copy));
    if (!(snapshot(b) == want)) { bad = true; r.fail("classify:argv-constructor-differs", [&] { return ctx() + "Arguments(argv, n) stored " + ref_str(snapshot(b)) + ", reference " + ref_str(want); }); }
    if (!(snapshot(c) == want)) { bad = true; r.fail("classify:move-constructor-differs", [&] { return ctx() + "Arguments(vector&&) stored " + ref_str(snapshot(c)) + ", reference " + ref_str(want); }); }
  }
  // one string: tokenised like a shell (unquoted empty tokens vanish), then classified the same way
  {
    std::string line;
    std::vector<std::string> nonempty;
    for (auto& t : tokens) if (!t.empty()) { line += (nonempty.empty() ? "" : " ") + t; nonempty.push_back(t); }
    RefArgs want_line = ref_classify(nonempty);
    std::optional<Arguments> s;
    std::string oc = vf::outcome([&] { s.emplace(line); });
    if (oc != "ok" || !(snapshot(*s) == want_line)) { bad = true; r.fail("classify:string-constructor-differs", [&] { return ctx() + "Arguments(" + vf::show(line) + ") -> " + oc + (s ? " stored " + ref_str(snapshot(*s)) : "") + ", reference " + ref_str(want_line); }); }
  }
  if (!bad) r.ok(tokens.empty() ? "empty list" : want.named.empty() ? "positional only" : want.positional.empty() ? "named/flags only" : "mixed");
}

// ---------------------------------------------------------------------------------------------------
// shell-style tokenisation of one string
// ---------------------------------------------------------------------------------------------------
bool is_meta(char c) { return c == ' ' || c == '\t' || c == '"' || c == '\'' || c == '\\'; }

// renderings of one logical token that a POSIX shell and split_args' documented grammar read alike
std::vector<std::string> renderings(const std::string& t) {
  std::vector<std::string> out;
  bool has_meta = false, has_sq = false, has_bs = false;
  for (char c : t) { has_meta |= is_meta(c); has_sq |= c == '\''; has_bs |= c == '\\'; }
  if (!has_meta) out.push_back(t);
  {
    std::string s = "\"";
    for (char c : t) { if (c == '"' || c == '\\') s += '\\'; s += c; }
    out.push_back(s + "\"");
  }
  if (!has_sq && !has_bs) out.push_back("'" + t + "'");
  {
    std::string s;
    for (char c : t) { if (is_meta(c)) s += '\\'; s += c; }
    if (has_meta) out.push_back(s);
  }
  if (t.size() >= 2) {  // first character bare/escaped, the rest double-quoted: adjacent pieces concatenate
    std::string s;
    if (is_meta(t[0])) s += '\\';
    s += t[0];
    s += '"';
    for (size_t i = 1; i < t.size(); i++) { if (t[i] == '"' || t[i] == '\\') s += '\\'; s += t[i]; }
    out.push_back(s + "\"");
  }
  return out;
}

// ---------------------------------------------------------------------------------------------------
// one (text, format): all targets of the chosen type set x the chosen access paths
// ---------------------------------------------------------------------------------------------------
enum TypeSet { T_NARROW, T_FIXED, T_ALL };  // six 8/16/32-bit types; + the two 64-bit types; + long long, unsigned long long, char, wchar_t, char16_t, char32_t

void int_text_case(vf::Run& r, const std::string& text, IntFormat f, TypeSet types, bool all_paths) {
  RefNum ref = ref_numeral(text, f);
  Arguments named(std::vector<std::string>{"--x=" + text});
  std::optional<Arguments> pos;
  bool can_pos = text.empty() || text[0] != '-';
  if (can_pos) pos.emplace(std::vector<std::string>{text});
  r.nontriv();
  bool bad = false;
  const char* cls = nullptr;
  auto run = [&](auto tag) {
    typedef decltype(tag) T;
    for (int via = 0; via < NVIA; via++) {
      if (via != VIA_NAMED && !all_paths) continue;
      if ((via == VIA_POSITIONAL || via == VIA_POS_DEFAULT) && !can_pos) continue;
      const char* c = int_read<T>(r, std::string("get<") + iname<T>() + ">", named, pos ? &*pos : nullptr, text, ref, f, (Via)via);
      if (!c) bad = true;
      else if (via == VIA_NAMED && std::is_same_v<T, int16_t>) cls = c;
    }
  };
  run((int8_t)0); run((uint8_t)0); run((int16_t)0); run((uint16_t)0); run((int32_t)0); run((uint32_t)0);
  if (types >= T_FIXED) { run((int64_t)0); run((uint64_t)0); }
  if (types >= T_ALL) { run((long long)0); run((unsigned long long)0); run((char)0); run((wchar_t)0); run((char16_t)0); run((char32_t)0); }
  // every read (accepted or rejected) leaves the stored text and the other container alone
  if (named.named.size() != 1 || named.named.begin()->first != "x" || named.named.begin()->second.size() != 1 || named.named.begin()->second[0].text != text || !named.positional.empty()) {
    bad = true;
    r.fail("get<integer>:query-changed-stored-arguments", [&] { return "after typed reads of --x=" + short_show(text) + " the object holds " + ref_str(snapshot(named)); });
  }
  if (!bad) r.ok(std::string("as int16_t: ") + (cls ? cls : "?"));
}


void float_text_case(vf::Run& r, const std::string& text) {
  if (r.wants_desc()) r.desc("get<double>/get<float>/get<long double> (five access paths each) on text " + short_show(text));
  RefFloat ref = ref_float(text);
  Arguments named(std::vector<std::string>{"--x=" + text});
  std::optional<Arguments> pos;
  bool can_pos = text.empty() || text[0] != '-';
  if (can_pos) pos.emplace(std::vector<std::string>{text});
  r.nontriv();
  bool bad = false;
  const char* cls = nullptr;
  for (int via = 0; via < NVIA; via++) {
    if ((via == VIA_POSITIONAL || via == VIA_POS_DEFAULT) && !can_pos) continue;
    const char* c = float_read<double>(r, "get<double>", named, pos ? &*pos : nullptr, text, ref, via);
    if (!c) bad = true; else if (via == VIA_NAMED) cls = c;
    c = float_read<float>(r, "get<float>", named, pos ? &*pos : nullptr, text, ref, via);
    if (!c) bad = true;
    c = float_read<long double>(r, "get<long double>", named, pos ? &*pos : nullptr, text, ref, via);
    if (!c) bad = true;
  }
  if (ref.cls == VALID) r.xchecked++;
  if (!bad) r.ok(std::string("as double: ") + (cls ? cls : "?"));
}


}  // namespace

// =====================================================================================================

VF_SECTION(classify, 16, 16, 120) {
  r.note("Arguments::parse");
  for (size_t len = 0; len <= 5; len++) {
    for (vf::Odometer o(std::vector<uint32_t>(len, 13)); !o.done; o.step()) {
      if (!r.take()) continue;
      std::vector<std::string> tokens;
      for (size_t i = 0; i < len; i++) tokens.push_back(TOKENS[o.d[len - 1 - i]]);
      classify_case(r, tokens);
    }
  }
  r.bound = "every token list of length 0..5 over {a, \"\", -, --, -x, -xy, -5, --n, --n=v, --n=, --=v, --n=v=w, --m=7} (402234 lists): three token-list constructors, the string constructor on the space-joined list; getters asked for 15 names (5-token lists: every present name and two absent ones)";
}

VF_SECTION(shell, 8, 8, 120) {
  r.note("Arguments(string)/split_args");
  static const char* LOGICAL[] = {"a", "--n=v", "-xy", "a b", "--n=v w", "it's", "say \"hi\"", "b\\c", "--m=\t7"};
  const size_t NL = sizeof(LOGICAL) / sizeof(LOGICAL[0]);
  static const char* SEPS[] = {" ", "  ", "\t", " \t "};
  std::vector<std::vector<std::string>> rend;
  for (size_t i = 0; i < NL; i++) rend.push_back(renderings(LOGICAL[i]));
  for (size_t len = 0; len <= 3; len++) {
    for (vf::Odometer o(std::vector<uint32_t>(len, (uint32_t)NL)); !o.done; o.step()) {
      std::vector<uint32_t> radix;
      for (size_t i = 0; i < len; i++) radix.push_back((uint32_t)rend[o.d[len - 1 - i]].size());
      for (vf::Odometer ro(radix); !ro.done; ro.step()) {
        for (size_t sep = 0; sep < 4; sep++) {
          for (int edge = 0; edge < 4; edge++) {
            if (len < 2 && sep > 0) continue;
            if (!r.take()) continue;
            std::vector<std::string> tokens;
            std::string line = (edge & 1) ? " " : "";
            for (size_t i = 0; i < len; i++) {
              size_t li = o.d[len - 1 - i];
              tokens.push_back(LOGICAL[li]);
              if (i) line += SEPS[sep];
              line += rend[li][ro.d[i]];
            }
            if (edge & 2) line += "\t ";
            if (r.wants_desc()) r.desc("Arguments(" + vf::show(line) + ") vs Arguments(" + list_str(tokens) + ")");
            RefArgs want = ref_classify(tokens);
            r.nontriv();
            std::vector<std::string> split;
            std::string oc = vf::outcome([&] { split = phosg::split_args(line); });
            std::optional<Arguments> a;
            std::string oc2 = vf::outcome([&] { a.emplace(line); });
            if (oc != "ok" || split != tokens) r.fail("split_args:not-shell-tokens", [&] { return "split_args(" + vf::show(line) + ") -> " + oc + " " + list_str(split) + ", a shell yields " + list_str(tokens); });
            else if (oc2 != "ok" || !(snapshot(*a) == want)) r.fail("classify:string-constructor-differs", [&] { return "Arguments(" + vf::show(line) + ") -> " + oc2 + (a ? " stored " + ref_str(snapshot(*a)) : "") + ", reference " + ref_str(want); });
            else r.ok(len == 0 ? "blank line" : "quoted/escaped tokens");
          }
        }
      }
    }
  }
  // histories: the tokeniser keeps nothing between calls.  Every ordered pair (A, B) of lines, A also from the
  // lines that make it throw (unterminated quote, dangling backslash), executed as A, B, A.
  {
    struct HLine { std::string line; bool settled; std::vector<std::string> tokens; };
    std::vector<HLine> H = {
        {"", true, {}}, {"a", true, {"a"}}, {"a b", true, {"a", "b"}}, {"'a b' c", true, {"a b", "c"}}, {"\"x\\\"y\" z", true, {"x\"y", "z"}}, {"a\\ b", true, {"a b"}},
        {"\t a \t", true, {"a"}}, {"--n=v -xy", true, {"--n=v", "-xy"}}, {std::string(300, 'a') + " " + std::string(70, 'b') + "\t'" + std::string(40, ' ') + "'", true, {std::string(300, 'a'), std::string(70, 'b'), std::string(40, ' ')}},
        {"\"abc", false, {}}, {"'abc def", false, {}}, {"abc\\", false, {}}, {"a \"b c", false, {}}, {"x 'y", false, {}}, {"\"a\\", false, {}}};
    // (each step makes exactly ONE tokenising call: split_args in variant 0, the string constructor in variant 1)
    for (int variant = 0; variant < 2; variant++) for (size_t ia = 0; ia < H.size(); ia++) for (size_t ib = 0; ib < H.size(); ib++) {
      if (!H[ib].settled) continue;
      if (!r.take()) continue;
      const char* fn = variant ? "Arguments(line)" : "split_args(line)";
      if (r.wants_desc()) r.desc(std::string(fn) + " history A, B, A with A = " + short_show(H[ia].line) + ", B = " + short_show(H[ib].line));
      r.nontriv();
      bool bad = false;
      const HLine* seq[3] = {&H[ia], &H[ib], &H[ia]};
      for (int step = 0; step < 3 && !bad; step++) {
        const HLine& h = *seq[step];
        std::vector<std::string> split;
        std::optional<Arguments> a;
        r.poison_errno();
        std::string oc = variant ? vf::outcome([&] { a.emplace(h.line); }) : vf::outcome([&] { split = phosg::split_args(h.line); });
        if (!h.settled) {
          if (oc != "ok" && oc != "runtime_error") { bad = true; r.fail("split_args:unexpected-exception-type", [&] { return std::string(fn) + " on " + short_show(h.line) + " threw " + oc; }); }
          continue;
        }
        bool same = oc == "ok" && (variant ? snapshot(*a) == ref_classify(h.tokens) : split == h.tokens);
        if (!same) { bad = true; r.fail("split_args:history", [&] { return vf::fmt("call #%d of A, B, A (A = ", step + 1) + short_show(H[ia].line) + ", B = " + short_show(H[ib].line) + "): " + fn + " -> " + oc + " " + (variant ? (a ? ref_str(snapshot(*a)) : std::string()) : list_str(split)) + ", a shell yields " + list_str(h.tokens); }); }
      }
      if (!bad) r.ok(H[ia].settled ? "tokeniser history: as the reference" : "tokeniser history after a rejected line: as the reference");
    }
  }
  // unterminated quotes / dangling backslash / empty quoted arguments: executed for memory safety and
  // termination only (the statement does not settle them)
  static const char* EXEC_ONLY[] = {"\"abc", "'abc", "abc\\", "a \"\" b", "'' x", "\"\"", "a\\", "\"a\\", "--n=\"", "\\"};
  for (const char* s : EXEC_ONLY) {
    if (!r.take()) continue;
    std::string line = s;
    if (r.wants_desc()) r.desc("Arguments(" + vf::show(line) + ") (executed only)");
    std::string oc = vf::outcome([&] { Arguments a(line); (void)vf::outcome([&] { a.assert_none_unused(); }); });
    if (oc != "ok" && oc != "runtime_error") r.fail("split_args:unexpected-exception-type", [&] { return "Arguments(" + vf::show(line) + ") threw " + oc; });
    else r.ok(std::string("don't-care line: ") + oc);
  }
  r.bound = "every list of 0..3 logical tokens from {a, --n=v, -xy, 'a b', '--n=v w', it's, say \"hi\", b\\c, --m=<TAB>7} x every combination of shell renderings (bare, double-quoted, single-quoted, backslash-escaped, half-quoted) x 4 separators x leading/trailing blanks; histories A, B, A over 15 lines (6 of them rejected: unterminated quote, dangling backslash) x 9 settled lines, through split_args and through the string constructor (one tokenising call per step)";
}

VF_SECTION(ints, 16, 16, 120) {
  r.note("parse_int");
  // n = 0, 1, -1, 2, -2, ... (simplest first)
  for (int64_t k = 0; k <= 140000; k++) {
    int64_t n = (k % 2) ? (k + 1) / 2 : -(k / 2);
    int64_t an = n < 0 ? -n : n;
    bool near_boundary = an <= 300 || (an >= 32766 && an <= 32770) || (an >= 65534 && an <= 65538) || an >= 69998;
    for (int style = 0; style < 5; style++) {
      for (IntFormat f : FORMATS) {
        if (!r.take()) continue;
        std::string text = render(n, style);
        if (r.wants_desc()) r.desc(vf::fmt("n=%lld rendered as %s: ", (long long)n, style_name[style]) + vf::show(text) + vf::fmt(" read with IntFormat::%s as int8/uint8/int16/uint16/int32/uint32%s", fmt_name(f), near_boundary ? " through all five access paths" : ""));
        int_text_case(r, text, f, r.thorough() ? T_FIXED : T_NARROW, near_boundary || r.thorough());
      }
    }
  }
  r.bound = r.thorough() ? "every n in [-70000,70000] x {decimal, 0x-hex, bare hex, 0-octal, bare octal} x IntFormat {DEFAULT,DECIMAL,HEX,OCTAL} x the eight fixed-width targets x five access paths (get, get_multi, get with default, positional, positional with default)"
                         : "every n in [-70000,70000] x {decimal, 0x-hex, bare hex, 0-octal, bare octal} x IntFormat {DEFAULT,DECIMAL,HEX,OCTAL} x {int8,uint8,int16,uint16,int32,uint32} via get<T>(name,fmt); near type boundaries also get_multi, get with default, positional and positional with default";
}

VF_SECTION(bounds, 8, 8, 120) {
  r.note("parse_int");
  std::vector<i128> N;
  auto P2 = [](int k) { return (i128)1 << k; };
  auto add = [&](i128 n) { for (i128 m : N) if (m == n) return; N.push_back(n); };
  // numerals that a modulo-2^64 conversion would turn into small values of the other sign (first, so that
  // the minimal reported case is the plain 2^64-1)
  for (i128 small : {(i128)1, (i128)2, (i128)127, (i128)128, (i128)129, (i128)255, (i128)32768, (i128)32769, P2(31), P2(31) + 1, P2(32) - 1}) { add(P2(64) - small); add(-(P2(64) - small)); }
  for (int k : {7, 8, 15, 16, 31, 32, 63, 64}) for (int d = -2; d <= 2; d++) { add(P2(k) + d); add(-(P2(k) + d)); }
  i128 p = 1;
  for (int k = 1; k <= 25; k++) { p *= 10; if (k >= 18) { add(p); add(-p); add(p - 1); } }
  add(P2(65)); add(P2(96) + 5); add(-(P2(96) + 5)); add(P2(64) * 3 - 1);
  // +-(2^k - 1), +-2^k, +-(2^k + 1) for EVERY k up to 65: each bit position of the mask arithmetic, of every width
  for (int k = 0; k <= 65; k++) for (int d = -1; d <= 1; d++) { add(P2(k) + d); add(-(P2(k) + d)); }
  // multiples of 2^32 and 2^64 plus a small value: what a conversion through a narrower intermediate would keep
  for (i128 small : {(i128)0, (i128)1, (i128)5, (i128)255}) { add(P2(32) * 3 + small); add(-(P2(32) * 3 + small)); add(P2(64) + small); add(-(P2(64) + small)); add(P2(64) * 2 + small); }
  for (i128 n : N) {
    for (int style = 0; style < 7; style++) {
      for (IntFormat f : FORMATS) {
        if (!r.take()) continue;
        std::string text = render(n, style);
        if (r.wants_desc()) r.desc("n=" + s128(n) + " rendered as " + style_name[style] + ": " + vf::show(text) + vf::fmt(" read with IntFormat::%s as all fourteen integer types through all access paths", fmt_name(f)));
        int_text_case(r, text, f, T_ALL, true);
      }
    }
  }
  // garbage around numerals
  static const char* NUMS[] = {"", "0", "7", "12", "-3", "0x1f", "017", "ff", "-0", "00", "08", "0x", "-", "9", "0X1F", "FF", "--3", "0x-1", "-0x10", "0b101", "1'000", "1_000", "١٢"};
  static const char* AFFIX[] = {"", "x", "+", "-", ".", "0x", "1 ", "_", " ", "\t", "0", "e1", "\n"};
  for (const char* num : NUMS) {
    for (const char* pre : AFFIX) {
      for (const char* suf : AFFIX) {
        for (IntFormat f : FORMATS) {
          if (!r.take()) continue;
          std::string text = std::string(pre) + num + suf;
          if (r.wants_desc()) r.desc("text " + vf::show(text) + vf::fmt(" (prefix %s + numeral %s + suffix %s) read with IntFormat::%s as all eight fixed-width integer types through all access paths", vf::show(pre).c_str(), vf::show(num).c_str(), vf::show(suf).c_str(), fmt_name(f)));
          int_text_case(r, text, f, T_FIXED, true);
        }
      }
    }
  }
  // long texts: leading zeros, long digit strings, long garbage (nothing may be cut off at a buffer size)
  {
    static const size_t LENS[] = {1, 2, 15, 16, 17, 19, 20, 21, 22, 23, 31, 32, 33, 63, 64, 65, 127, 128, 255, 256, 257, 1023, 1024, 4095, 4096, 65536};
    static const char* TAILS[] = {"", "7", "77", "8", "f", "x", "7x", "7 ", ".", "18446744073709551615"};
    static const char* HEADS[] = {"", "-", "0x", "-0x"};
    for (size_t len : LENS) for (char fill : {'0', '1', '7', 'f'}) for (const char* head : HEADS) for (const char* tail : TAILS) for (IntFormat f : FORMATS) {
      if (!r.take()) continue;
      std::string text = std::string(head) + std::string(len, fill) + tail;
      if (r.wants_desc()) r.desc(vf::fmt("text %s + %zu x '%c' + %s read with IntFormat::%s as all eight fixed-width integer types through all access paths", vf::show(head).c_str(), len, fill, vf::show(tail).c_str(), fmt_name(f)));
      int_text_case(r, text, f, T_FIXED, true);
    }
  }
  r.bound = vf::fmt("%zu boundary numerals: +-(2^k + {-1,0,1}) for every k in 0..65, +-(2^k + {-2..2}) for k in {7,8,15,16,31,32,63,64}, +-(2^64 - small), 10^18..10^25, multiples of 2^32/2^64 + small, 2^96+5", N.size()) +
            " x 7 renderings (decimal, 0x/bare hex in both letter cases, 0-/bare octal) x 4 formats x 14 targets (the eight fixed-width types, long long, unsigned long long, char, wchar_t, char16_t, char32_t) x 5 access paths (64-bit targets compared only for |n| < 2^63); 23 numerals x 13 prefixes x 13 suffixes x 4 formats x 8 targets x 5 paths; long texts: 26 lengths (1..65536) x fill {0,1,7,f} x 4 heads x 10 tails x 4 formats x 8 targets x 5 paths";
}

VF_SECTION(floats, 8, 8, 120) {
  r.note("parse_float");
  static const char* D1[] = {"0", "1", "9"};
  std::vector<std::string> ints, fracs = {""}, exps = {""};
  for (auto a : D1) { ints.push_back(a); for (auto b : D1) ints.push_back(std::string(a) + b); }
  for (auto a : D1) { fracs.push_back(std::string(".") + a); for (auto b : D1) fracs.push_back(std::string(".") + a + b); }
  for (const char* sg : {"", "+", "-"}) for (auto a : D1) { exps.push_back(std::string("e") + sg + a); for (auto b : D1) exps.push_back(std::string("e") + sg + a + b); }
  for (const char* sign : {"", "-", "+"}) {
    for (auto& ip : ints) for (auto& fp : fracs) for (auto& ep : exps) {
      if (!r.take()) continue;
      float_text_case(r, std::string(sign) + ip + fp + ep);
    }
  }
  // other literal shapes and garbage
  static const char* BASE[] = {"", "1.5", ".5", "5.", "1e5", "1E5", "1.e5", ".", "e5", ".e5", "1e", "1e+", "1e-", "1..5", "1.5.2", "1,5", "--5", "-", "+", "1e5.5", "1e400", "1e-400", "0x10", "0x1p3", "inf", "nan", "infinity", "123456789012345678901234567890", "0.1", "0.30000000000000004", "2.2250738585072014e-308", "1.7976931348623157e308", "4.9e-324", "3.4028235e38", "3.5e38", "1e39"};
  static const char* AFFIX[] = {"", "x", "+", "-", ".", "0x", "1 ", "_", " ", "\t", "f", "e", "\n"};
  for (const char* b : BASE) for (const char* pre : AFFIX) for (const char* suf : AFFIX) {
    if (!r.take()) continue;
    float_text_case(r, std::string(pre) + b + suf);
  }
  r.bound = "all literals [+-]d[d][.d[d]][e[+-]d[d]] over digits {0,1,9} (17316) and 36 further shapes x 13 prefixes x 13 suffixes; get<double>/get<float>/get<long double> through five access paths each; value vs std::from_chars within 1 ulp (long double compared at double precision)";
}

VF_SECTION(absent, 2, 2, 120) { c17::absent_section(r); }

VF_MAIN()
