// C17 — command-line arguments are classified and type-checked exactly.
// E-ENUM on the real Arguments class: all token lists <= 5 over a 13-token grammar against a
// reference classifier (three constructors + the string constructor), every integer in
// [-70000,70000] x rendering x IntFormat x 8/16/32-bit target against a reference numeral grammar,
// boundary numerals x eight targets, garbage prefixes/suffixes, float literals against
// std::from_chars, and every subset of getters before assert_none_unused.
// Compiled with -fno-access-control: the private containers are read only to check that nothing
// beyond what the public getters show was stored ("classified exactly once").
#include <math.h>

#include <charconv>
#include <limits>
#include <map>
#include <optional>
#include <string>
#include <vector>

#include "Arguments.hh"
#include <errno.h>

#include "vf.hh"

using phosg::Arguments;
typedef Arguments::IntFormat IntFormat;
typedef unsigned __int128 u128;
typedef __int128 i128;

namespace {

std::string s128(i128 v) {
  if (v == 0) return "0";
  bool neg = v < 0;
  u128 u = neg ? (u128)(-(v + 1)) + 1 : (u128)v;
  std::string s;
  while (u) { s.insert(s.begin(), (char)('0' + (int)(u % 10))); u /= 10; }
  return neg ? "-" + s : s;
}

std::string list_str(const std::vector<std::string>& v) {
  std::string s = "[";
  for (size_t i = 0; i < v.size(); i++) s += (i ? ", " : "") + vf::show(v[i]);
  return s + "]";
}

// ---------------------------------------------------------------------------------------------------
// classification reference
// ---------------------------------------------------------------------------------------------------
struct RefArgs {
  std::vector<std::string> positional;
  std::map<std::string, std::vector<std::string>> named;
  size_t named_total = 0;
  bool operator==(const RefArgs& o) const { return positional == o.positional && named == o.named; }
};

// positional unless it starts with '-' and has more; "--name[=value]" (first '=' splits) is a named
// option; "-abc" is the flags a, b, c (each a named option with empty value); "-" and "--" alone carry
// neither a flag letter nor a name and stay positional
RefArgs ref_classify(const std::vector<std::string>& tokens) {
  RefArgs r;
  for (const std::string& t : tokens) {
    if (t.size() > 2 && t[0] == '-' && t[1] == '-') {
      std::string body = t.substr(2);
      size_t eq = body.find('=');
      std::string name = eq == std::string::npos ? body : body.substr(0, eq);
      std::string value = eq == std::string::npos ? std::string() : body.substr(eq + 1);
      r.named[name].push_back(value);
      r.named_total++;
    } else if (t.size() >= 2 && t[0] == '-' && t[1] != '-') {
      for (size_t i = 1; i < t.size(); i++) {
        r.named[std::string(1, t[i])].push_back("");
        r.named_total++;
      }
    } else {
      r.positional.push_back(t);
    }
  }
  return r;
}

// white-box snapshot of an Arguments object
RefArgs snapshot(const Arguments& a) {
  RefArgs r;
  for (auto& p : a.positional) r.positional.push_back(p.text);
  for (auto& kv : a.named) {
    auto& v = r.named[kv.first];
    for (auto& t : kv.second) { v.push_back(t.text); r.named_total++; }
  }
  return r;
}
std::string ref_str(const RefArgs& r) {
  std::string s = "positional=" + list_str(r.positional) + " named={";
  bool first = true;
  for (auto& kv : r.named) { s += (first ? "" : ", ") + vf::show(kv.first) + ":" + list_str(kv.second); first = false; }
  return s + "}";
}

const char* TOKENS[13] = {"a", "", "-", "--", "-x", "-xy", "-5", "--n", "--n=v", "--n=", "--=v", "--n=v=w", "--m=7"};
// names asked for: every name the grammar can produce plus strings that must NOT have become names
const char* NAMES[] = {"n", "m", "", "x", "y", "5", "a", "v", "w", "7", "xy", "n=v", "-", "--n", "=v"};

void classify_case(vf::Run& r, const std::vector<std::string>& tokens) {
  if (r.wants_desc()) r.desc("Arguments(" + list_str(tokens) + "): three token-list constructors, string constructor on the space-joined list, all getters");
  RefArgs want = ref_classify(tokens);
  r.nontriv();
  bool bad = false;
  auto ctx = [&] { return "tokens " + list_str(tokens) + ": "; };

  Arguments a(tokens);
  // before anything is read: throws iff something was supplied
  {
    std::string oc = vf::outcome([&] { a.assert_none_unused(); });
    bool supplied = !tokens.empty();
    if ((oc == "invalid_argument") != supplied || (oc != "ok" && oc != "invalid_argument")) {
      bad = true;
      r.fail("assert_none_unused:before-any-read", [&] { return ctx() + "assert_none_unused() before any getter: " + oc + (supplied ? " (arguments were supplied)" : " (nothing supplied)"); });
    }
  }
  // white box: exactly the reference's entries, nothing else
  RefArgs got = snapshot(a);
  if (!(got == want)) {
    bad = true;
    bool count_ok = got.positional.size() + got.named_total == want.positional.size() + want.named_total;
    r.fail(count_ok ? "classify:wrong-class-or-order" : "classify:not-exactly-once", [&] { return ctx() + "stored " + ref_str(got) + ", reference " + ref_str(want); });
  }
  for (auto& kv : a.named) if (kv.second.empty()) { bad = true; r.fail("classify:empty-name-entry", [&] { return ctx() + "name " + vf::show(kv.first) + " stored without an instance"; }); }
  // public getters
  for (size_t i = 0; i < want.positional.size(); i++) {
    std::string v;
    std::string oc = vf::outcome([&] { v = a.get<std::string>(i); });
    if (oc != "ok" || v != want.positional[i]) { bad = true; r.fail("get<string>(position):wrong-value", [&] { return ctx() + vf::fmt("get<string>(%zu) -> %s ", i, oc.c_str()) + vf::show(v) + ", reference " + vf::show(want.positional[i]); }); }
  }
  {
    size_t n = want.positional.size();
    std::string oc = vf::outcome([&] { a.get<std::string>(n); });
    if (oc != "out_of_range") { bad = true; r.fail("get<string>(position):absent-not-out_of_range", [&] { return ctx() + vf::fmt("get<string>(%zu) past the last positional -> %s", n, oc.c_str()); }); }
    std::string v = "?";
    oc = vf::outcome([&] { v = a.get<std::string>(n, false); });
    if (oc != "ok" || !v.empty()) { bad = true; r.fail("get<string>(position,false):absent-not-empty", [&] { return ctx() + vf::fmt("get<string>(%zu, false) -> %s ", n, oc.c_str()) + vf::show(v); }); }
  }
  size_t absent_asked = 0;
  for (const char* nm : NAMES) {
    std::string name = nm;
    auto it = want.named.find(name);
    std::vector<std::string> exp = it == want.named.end() ? std::vector<std::string>() : it->second;
    // every lookup of an absent name costs several internal exceptions (~10 us each under ASan): for
    // the 371293 five-token lists the getters are asked for every present name and for two absent
    // ones only; the white-box comparison above already shows that no other name was stored
    if (tokens.size() >= 5 && exp.empty() && absent_asked++ >= 2) continue;
    std::vector<std::string> multi;
    std::string oc = vf::outcome([&] { multi = a.get_multi<std::string>(name); });
    if (oc != "ok" || multi != exp) { bad = true; r.fail("get_multi<string>:wrong-values", [&] { return ctx() + "get_multi<string>(" + vf::show(name) + ") -> " + oc + " " + list_str(multi) + ", reference " + list_str(exp); }); }
    bool b = false;
    oc = vf::outcome([&] { b = a.get<bool>(nm); });
    if (oc != "ok") { bad = true; r.fail("get<bool>:throws", [&] { return ctx() + "get<bool>(" + vf::show(name) + ") -> " + oc; }); }
    else if (exp.size() <= 1 && b != (exp.size() == 1)) { bad = true; r.fail("get<bool>:wrong-value", [&] { return ctx() + "get<bool>(" + vf::show(name) + ") = " + (b ? "true" : "false") + vf::fmt(", option supplied %zu times", exp.size()); }); }
    if (exp.size() <= 1) {  // single-value getter on a repeated option: not settled by the statement, executed only
      std::string v = "?";
      oc = vf::outcome([&] { v = a.get<std::string>(name); });
      if (oc != "ok" || v != (exp.empty() ? std::string() : exp[0])) { bad = true; r.fail("get<string>(name):wrong-value", [&] { return ctx() + "get<string>(" + vf::show(name) + ") -> " + oc + " " + vf::show(v); }); }
      oc = vf::outcome([&] { v = a.get<std::string>(name, true); });
      if (exp.empty() ? oc != "out_of_range" : (oc != "ok" || v != exp[0])) { bad = true; r.fail("get<string>(name,true):wrong-result", [&] { return ctx() + "get<string>(" + vf::show(name) + ", true) -> " + oc; }); }
    } else {
      (void)vf::outcome([&] { a.get<std::string>(name); });
    }
  }
  // everything has been read now (positionals by get<string>(i), named by get_multi)
  {
    std::string oc = vf::outcome([&] { a.assert_none_unused(); });
    if (oc != "ok") { bad = true; r.fail("assert_none_unused:after-reading-everything", [&] { return ctx() + "assert_none_unused() after every argument was read -> " + oc; }); }
  }
  // the other constructors store the same thing
  {
    std::vector<const char*> argv;
    for (auto& t : tokens) argv.push_back(t.c_str());
    Arguments b(argv.data(), argv.size());
    std::vector<std::string> copy = tokens;
    Arguments c(std::move(copy));
    if (!(snapshot(b) == want)) { bad = true; r.fail("classify:argv-constructor-differs", [&] { return ctx() + "Arguments(argv, n) stored " + ref_str(snapshot(b)) + ", reference " + ref_str(want); }); }
    if (!(snapshot(c) == want)) { bad = true; r.fail("classify:move-constructor-differs", [&] { return ctx() + "Arguments(vector&&) stored " + ref_str(snapshot(c)) + ", reference " + ref_str(want); }); }
  }
  // one string: tokenised like a shell (unquoted empty tokens vanish), then classified the same way
  {
    std::string line;
    std::vector<std::string> nonempty;
    for (auto& t : tokens) if (!t.empty()) { line += (nonempty.empty() ? "" : " ") + t; nonempty.push_back(t); }
    RefArgs want_line = ref_classify(nonempty);
    std::optional<Arguments> s;
    std::string oc = vf::outcome([&] { s.emplace(line); });
    if (oc != "ok" || !(snapshot(*s) == want_line)) { bad = true; r.fail("classify:string-constructor-differs", [&] { return ctx() + "Arguments(" + vf::show(line) + ") -> " + oc + (s ? " stored " + ref_str(snapshot(*s)) : "") + ", reference " + ref_str(want_line); }); }
  }
  if (!bad) r.ok(tokens.empty() ? "empty list" : want.named.empty() ? "positional only" : want.positional.empty() ? "named/flags only" : "mixed");
}

// ---------------------------------------------------------------------------------------------------
// shell-style tokenisation of one string
// ---------------------------------------------------------------------------------------------------
bool is_meta(char c) { return c == ' ' || c == '\t' || c == '"' || c == '\'' || c == '\\'; }

// renderings of one logical token that a POSIX shell and split_args' documented grammar read alike
std::vector<std::string> renderings(const std::string& t) {
  std::vector<std::string> out;
  bool has_meta = false, has_sq = false, has_bs = false;
  for (char c : t) { has_meta |= is_meta(c); has_sq |= c == '\''; has_bs |= c == '\\'; }
  if (!has_meta) out.push_back(t);
  {
    std::string s = "\"";
    for (char c : t) { if (c == '"' || c == '\\') s += '\\'; s += c; }
    out.push_back(s + "\"");
  }
  if (!has_sq && !has_bs) out.push_back("'" + t + "'");
  {
    std::string s;
    for (char c : t) { if (is_meta(c)) s += '\\'; s += c; }
    if (has_meta) out.push_back(s);
  }
  if (t.size() >= 2) {  // first character bare/escaped, the rest double-quoted: adjacent pieces concatenate
    std::string s;
    if (is_meta(t[0])) s += '\\';
    s += t[0];
    s += '"';
    for (size_t i = 1; i < t.size(); i++) { if (t[i] == '"' || t[i] == '\\') s += '\\'; s += t[i]; }
    out.push_back(s + "\"");
  }
  return out;
}

// ---------------------------------------------------------------------------------------------------
// integer numeral reference
// ---------------------------------------------------------------------------------------------------
enum Cls { INVALID, VALID, DONTCARE };
struct RefNum {
  Cls cls = INVALID;
  bool neg = false;
  u128 mag = 0;
  bool huge = false;  // magnitude >= 2^100 (saturated)
  bool plus = false;  // explicit '+': rejecting it is fine, but if it is accepted the value must be right
  const char* why = "";
};

int digit_of(char c) {
  if (c >= '0' && c <= '9') return c - '0';
  if (c >= 'a' && c <= 'f') return c - 'a' + 10;
  if (c >= 'A' && c <= 'F') return c - 'A' + 10;
  return 99;
}

// A complete numeral: [-] digits of the requested base; HEX may carry 0x; DEFAULT follows the C
// convention (0x.. hex, 0.. octal, otherwise decimal).  Leading blanks are don't-care; whether an explicit
// '+' belongs to a numeral is not settled by the statement (rejecting is fine; if accepted, value and fit
// are checked).
RefNum ref_numeral(const std::string& t, IntFormat f) {
  RefNum r;
  if (t.empty()) { r.why = "empty"; return r; }
  if (t[0] == ' ' || (t[0] >= '\t' && t[0] <= '\r')) { r.cls = DONTCARE; r.why = "leading blank"; return r; }
  size_t i = 0;
  bool plus = false;
  if (t[i] == '-') { r.neg = true; i++; }
  else if (t[i] == '+') { plus = true; i++; }
  auto is_x = [&](size_t k) { return k + 2 < t.size() && t[k] == '0' && (t[k + 1] == 'x' || t[k + 1] == 'X') && digit_of(t[k + 2]) < 16; };
  int base = 10;
  switch (f) {
    case IntFormat::DECIMAL: base = 10; break;
    case IntFormat::OCTAL: base = 8; break;
    case IntFormat::HEX: base = 16; if (is_x(i)) i += 2; break;
    case IntFormat::DEFAULT:
      if (is_x(i)) { base = 16; i += 2; }
      else if (i < t.size() && t[i] == '0') base = 8;
      else base = 10;
      break;
  }
  if (i >= t.size()) { r.why = "no digits"; return r; }
  for (; i < t.size(); i++) {
    int d = digit_of(t[i]);
    if (d >= base) { r.why = "not a digit of the base"; return r; }
    if (!r.huge) {
      r.mag = r.mag * (unsigned)base + (unsigned)d;
      if (r.mag >> 100) r.huge = true;
    }
  }
  r.cls = VALID;
  r.plus = plus;
  r.why = plus ? "numeral with explicit plus sign" : "numeral";
  return r;
}

template <class T> const char* iname();
template <> const char* iname<int8_t>() { return "int8_t"; }
template <> const char* iname<uint8_t>() { return "uint8_t"; }
template <> const char* iname<int16_t>() { return "int16_t"; }
template <> const char* iname<uint16_t>() { return "uint16_t"; }
template <> const char* iname<int32_t>() { return "int32_t"; }
template <> const char* iname<uint32_t>() { return "uint32_t"; }
template <> const char* iname<int64_t>() { return "int64_t"; }
template <> const char* iname<uint64_t>() { return "uint64_t"; }

const char* fmt_name(IntFormat f) {
  switch (f) {
    case IntFormat::DEFAULT: return "DEFAULT";
    case IntFormat::HEX: return "HEX";
    case IntFormat::DECIMAL: return "DECIMAL";
    case IntFormat::OCTAL: return "OCTAL";
  }
  return "?";
}
const IntFormat FORMATS[4] = {IntFormat::DEFAULT, IntFormat::DECIMAL, IntFormat::HEX, IntFormat::OCTAL};

enum Expect { E_VALUE, E_INVALID, E_DONTCARE };
template <class T>
Expect expectation(const RefNum& n, uint64_t* bits) {
  if (n.cls == DONTCARE) return E_DONTCARE;
  if (n.cls == INVALID) return E_INVALID;
  typedef std::numeric_limits<T> L;
  if (sizeof(T) == 8) {
    // statement: for 64-bit targets any numeral of magnitude below 2^63 is returned; beyond: don't-care
    if (n.huge || n.mag >= ((u128)1 << 63)) return E_DONTCARE;
    *bits = n.neg ? (uint64_t)0 - (uint64_t)n.mag : (uint64_t)n.mag;
    return E_VALUE;
  }
  if (n.huge) return E_INVALID;
  if (n.neg) {
    u128 lim = L::is_signed ? (u128)1 << (sizeof(T) * 8 - 1) : 0;
    if (n.mag > lim) return E_INVALID;
    *bits = (uint64_t)0 - (uint64_t)n.mag;
  } else {
    if (n.mag > (u128)(uint64_t)L::max()) return E_INVALID;
    *bits = (uint64_t)n.mag;
  }
  return E_VALUE;
}

// errno is ambient process state: whatever an earlier, unrelated library call left there.  The
// getters' results must not depend on it, so every typed read starts from a pre-decided value
// (a function of the case index and the access path, hence identical on replay).  Without this a
// defect that consults a stale errno fails or passes depending on which cases ran before it.
static inline void set_ambient_errno(const vf::Run& r, int via) {
  static const int STATES[3] = {0, ERANGE, EINVAL};
  errno = STATES[(r.cur + (uint64_t)via) % 3];
}

enum Via { VIA_NAMED, VIA_MULTI, VIA_DEFAULT, VIA_POSITIONAL, NVIA };
const char* via_name[] = {"get<T>(name, fmt)", "get_multi<T>(name, fmt)", "get<T>(name, default, fmt)", "get<T>(position, fmt)"};

// One typed read of `text` and its comparison with the reference.  Returns the outcome class for the
// histogram or nullptr after reporting a violation.
template <class T>
const char* int_read(vf::Run& r, Arguments& named, Arguments* positional, const std::string& text, const RefNum& ref, IntFormat f, Via via) {
  uint64_t want_bits = 0;
  Expect e = expectation<T>(ref, &want_bits);
  T got = 0;
  size_t count = 1;
  std::string what;
  std::string oc = vf::outcome([&] {
    set_ambient_errno(r, (int)via);
    switch (via) {
      case VIA_NAMED: got = named.get<T>("x", f); break;
      case VIA_MULTI: { auto v = named.get_multi<T>("x", f); count = v.size(); got = v.empty() ? 0 : v[0]; break; }
      case VIA_DEFAULT: got = named.get<T>("x", (T)77, f); break;
      case VIA_POSITIONAL: got = positional->get<T>((size_t)0, f); break;
      default: break;
    }
  }, &what);
  r.counters["getter_calls"]++;
  if (e == E_DONTCARE) return "don't-care input (executed, not compared)";
  if (ref.plus && oc == "invalid_argument") return "don't-care input (executed, not compared)";
  std::string K = std::string("get<") + iname<T>() + ">";
  auto ctx = [&] { return vf::fmt("%s with T=%s fmt=%s on text ", via_name[via], iname<T>(), fmt_name(f)) + vf::show(text) + " (reference: " + ref.why + (ref.cls == VALID ? std::string(", value ") + (ref.neg ? "-" : "") + (ref.huge ? ">=2^100" : s128((i128)ref.mag)) : std::string()) + ")"; };
  if (oc != "ok" && oc != "invalid_argument") {
    r.fail(K + ":wrong-exception-type", [&] { return ctx() + " threw " + oc + " (" + what + ")"; });
    return nullptr;
  }
  if (e == E_INVALID) {
    if (oc == "ok") {
      r.fail(K + (ref.cls == VALID ? ":accepts-numeral-that-does-not-fit" : ":accepts-incomplete-numeral"), [&] { return ctx() + " returned " + s128((i128)got) + ", expected invalid_argument"; });
      return nullptr;
    }
    return ref.cls == VALID ? "rejected: does not fit" : "rejected: not a numeral of the base";
  }
  if (oc != "ok") {
    r.fail(K + ":rejects-fitting-numeral", [&] { return ctx() + " threw invalid_argument (" + what + ")"; });
    return nullptr;
  }
  if (count != 1 || got != (T)want_bits) {
    r.fail(K + ":wrong-value", [&] { return ctx() + " returned " + s128((i128)got) + vf::fmt(" (%zu values)", count); });
    return nullptr;
  }
  return "accepted: value exact";
}

// all targets x the chosen access paths for one (text, format)
void int_text_case(vf::Run& r, const std::string& text, IntFormat f, bool wide_targets, bool all_paths) {
  RefNum ref = ref_numeral(text, f);
  Arguments named(std::vector<std::string>{"--x=" + text});
  std::optional<Arguments> pos;
  bool can_pos = text.empty() || text[0] != '-';
  if (can_pos) pos.emplace(std::vector<std::string>{text});
  r.nontriv();
  bool bad = false;
  const char* cls = nullptr;
  auto run = [&](auto tag) {
    typedef decltype(tag) T;
    for (int via = 0; via < NVIA; via++) {
      if (via != VIA_NAMED && !all_paths) continue;
      if (via == VIA_POSITIONAL && !can_pos) continue;
      const char* c = int_read<T>(r, named, pos ? &*pos : nullptr, text, ref, f, (Via)via);
      if (!c) bad = true;
      else if (via == VIA_NAMED && sizeof(T) == 2 && std::is_signed_v<T>) cls = c;
    }
  };
  run((int8_t)0); run((uint8_t)0); run((int16_t)0); run((uint16_t)0); run((int32_t)0); run((uint32_t)0);
  if (wide_targets) { run((int64_t)0); run((uint64_t)0); }
  if (!bad) r.ok(std::string("as int16_t: ") + (cls ? cls : "?"));
}

std::string render(i128 n, int style) {
  bool neg = n < 0;
  u128 m = neg ? (u128)(-(n + 1)) + 1 : (u128)n;
  auto digits = [&](unsigned base) {
    if (m == 0) return std::string("0");
    std::string s;
    u128 v = m;
    while (v) { s.insert(s.begin(), "0123456789abcdef"[(int)(v % base)]); v /= base; }
    return s;
  };
  std::string body;
  switch (style) {
    case 0: body = digits(10); break;
    case 1: body = "0x" + digits(16); break;
    case 2: body = digits(16); break;
    case 3: body = "0" + digits(8); break;
    case 4: body = digits(8); break;
  }
  return (neg ? "-" : "") + body;
}
const char* style_name[5] = {"decimal", "0x-hex", "bare hex", "0-octal", "bare octal"};

// ---------------------------------------------------------------------------------------------------
// floats
// ---------------------------------------------------------------------------------------------------
struct RefFloat {
  Cls cls = INVALID;
  double value = 0;
  const char* why = "";
};
RefFloat ref_float(const std::string& t) {
  RefFloat r;
  if (t.empty()) { r.why = "empty"; return r; }
  if (t[0] == ' ' || (t[0] >= '\t' && t[0] <= '\r')) { r.cls = DONTCARE; r.why = "leading blank"; return r; }
  std::string s = t;
  bool plus = false;
  if (s[0] == '+') { plus = true; s = s.substr(1); if (!s.empty() && (s[0] == '-' || s[0] == '+')) { r.why = "two signs"; return r; } }
  {
    size_t k = (!s.empty() && s[0] == '-') ? 1 : 0;
    if (k + 1 < s.size() && s[k] == '0' && (s[k + 1] == 'x' || s[k + 1] == 'X')) { r.cls = DONTCARE; r.why = "hexadecimal float"; return r; }
    if (k < s.size() && (s[k] == 'i' || s[k] == 'I' || s[k] == 'n' || s[k] == 'N')) { r.cls = DONTCARE; r.why = "inf/nan spelling"; return r; }
  }
  double v = 0;
  auto res = std::from_chars(s.data(), s.data() + s.size(), v, std::chars_format::general);
  if (res.ptr != s.data() + s.size() || res.ec == std::errc::invalid_argument) { r.why = "not a complete literal"; return r; }
  r.value = v;
  if (res.ec == std::errc::result_out_of_range) { r.cls = DONTCARE; r.why = "literal outside the double range"; return r; }
  r.cls = plus ? DONTCARE : VALID;
  r.why = plus ? "explicit plus sign" : "literal";
  return r;
}

template <class T>
const char* float_read(vf::Run& r, Arguments& named, Arguments* positional, const std::string& text, const RefFloat& ref, int via) {
  T got = 0;
  size_t count = 1;
  std::string what;
  std::string oc = vf::outcome([&] {
    set_ambient_errno(r, via);
    switch (via) {
      case VIA_NAMED: got = named.get<T>("x"); break;
      case VIA_MULTI: { auto v = named.get_multi<T>("x"); count = v.size(); got = v.empty() ? 0 : v[0]; break; }
      case VIA_DEFAULT: got = named.get<T>("x", std::optional<T>((T)9.25)); break;
      case VIA_POSITIONAL: got = positional->get<T>((size_t)0); break;
    }
  }, &what);
  r.counters["getter_calls"]++;
  const char* tn = sizeof(T) == 4 ? "float" : "double";
  std::string K = std::string("get<") + tn + ">";
  static const char* vn[] = {"get<T>(name)", "get_multi<T>(name)", "get<T>(name, default)", "get<T>(position)"};
  auto ctx = [&] { return vf::fmt("%s with T=%s on text ", vn[via], tn) + vf::show(text) + " (reference: " + ref.why + ")"; };
  if (ref.cls == DONTCARE && !(oc == "ok" && ref.why[0] == 'e')) return "don't-care input (executed, not compared)";
  if (oc != "ok" && oc != "invalid_argument") { r.fail(K + ":wrong-exception-type", [&] { return ctx() + " threw " + oc + " (" + what + ")"; }); return nullptr; }
  if (ref.cls == INVALID) {
    if (oc == "ok") { r.fail(K + ":accepts-incomplete-literal", [&] { return ctx() + vf::fmt(" returned %.17g, expected invalid_argument", (double)got); }); return nullptr; }
    return "rejected: not a floating-point literal";
  }
  if (oc != "ok") { r.fail(K + ":rejects-literal", [&] { return ctx() + " threw invalid_argument (" + what + ")"; }); return nullptr; }
  T want = (T)ref.value;
  if (sizeof(T) == 4 && fabs(ref.value) > (double)std::numeric_limits<float>::max()) return "accepted: literal outside the float range (value not compared)";
  T lo = std::nextafter(want, -std::numeric_limits<T>::infinity()), hi = std::nextafter(want, std::numeric_limits<T>::infinity());
  if (count != 1 || !(got >= lo && got <= hi)) { r.fail(K + ":wrong-value", [&] { return ctx() + vf::fmt(" returned %.17g, std::from_chars gives %.17g", (double)got, (double)want); }); return nullptr; }
  return got == want ? "accepted: equals from_chars" : "accepted: within 1 ulp of from_chars";
}

void float_text_case(vf::Run& r, const std::string& text) {
  if (r.wants_desc()) r.desc("get<double>/get<float> (four access paths each) on text " + vf::show(text));
  RefFloat ref = ref_float(text);
  Arguments named(std::vector<std::string>{"--x=" + text});
  std::optional<Arguments> pos;
  bool can_pos = text.empty() || text[0] != '-';
  if (can_pos) pos.emplace(std::vector<std::string>{text});
  r.nontriv();
  bool bad = false;
  const char* cls = nullptr;
  for (int via = 0; via < NVIA; via++) {
    if (via == VIA_POSITIONAL && !can_pos) continue;
    const char* c = float_read<double>(r, named, pos ? &*pos : nullptr, text, ref, via);
    if (!c) bad = true; else if (via == VIA_NAMED) cls = c;
    c = float_read<float>(r, named, pos ? &*pos : nullptr, text, ref, via);
    if (!c) bad = true;
  }
  if (ref.cls == VALID) r.xchecked++;
  if (!bad) r.ok(std::string("as double: ") + (cls ? cls : "?"));
}

// ---------------------------------------------------------------------------------------------------
// getters x assert_none_unused
// ---------------------------------------------------------------------------------------------------
struct PoolArg { const char* token; };
const PoolArg POOL[7] = {{"7"}, {"300"}, {"--n=5"}, {"--n=6"}, {"--f=1.5"}, {"-v"}, {"--s=str"}};
enum { G_STR_P0, G_STR_P1_NOTHROW, G_STR_S, G_STR_N_THROW, G_MULTI_STR_N, G_BOOL_V, G_INT_N, G_INT_N_DEF, G_MULTI_INT_N, G_DBL_F, G_DBL_F_DEF, G_MULTI_DBL_F, G_INT_P0, G_U16_P1_DEF, NGETTERS };
const char* GETTER_NAME[NGETTERS] = {"get<string>(0)", "get<string>(1,false)", "get<string>(\"s\")", "get<string>(\"n\",true)", "get_multi<string>(\"n\")", "get<bool>(\"v\")",
    "get<int>(\"n\")", "get<int>(\"n\",99)", "get_multi<int>(\"n\")", "get<double>(\"f\")", "get<double>(\"f\",2.5)", "get_multi<double>(\"f\")", "get<int64_t>(0)", "get<uint16_t>(1,42)"};

std::string join_strs(const std::vector<std::string>& v) {
  std::string s;
  for (auto& x : v) s += x + ",";
  return s;
}

void unused_case(vf::Run& r, unsigned argmask, unsigned getmask) {
  std::vector<std::string> tokens;
  for (int i = 0; i < 7; i++) if (argmask & (1u << i)) tokens.push_back(POOL[i].token);
  auto getters_str = [&] {
    std::string s;
    for (int g = 0; g < NGETTERS; g++) if (getmask & (1u << g)) s += std::string(s.empty() ? "" : "; ") + GETTER_NAME[g];
    return s.empty() ? std::string("(none)") : s;
  };
  if (r.wants_desc()) r.desc("Arguments(" + list_str(tokens) + "), getters called: " + getters_str() + ", then assert_none_unused()");
  // reference state
  std::vector<std::string> pos;
  std::vector<std::string> nvals;
  bool has_f = argmask & 16, has_v = argmask & 32, has_s = argmask & 64;
  if (argmask & 1) pos.push_back("7");
  if (argmask & 2) pos.push_back("300");
  if (argmask & 4) nvals.push_back("5");
  if (argmask & 8) nvals.push_back("6");
  std::vector<bool> pos_used(pos.size(), false);
  bool n_used = nvals.empty(), f_used = !has_f, v_used = !has_v, s_used = !has_s;
  bool dontcare = false;  // a single-value getter applied to a repeated option: outcome not settled by the statement

  Arguments a(tokens);
  r.nontriv();
  bool bad = false;
  for (int g = 0; g < NGETTERS; g++) {
    if (!(getmask & (1u << g))) continue;
    std::string got, want;
    std::string oc;
    switch (g) {
      case G_STR_P0:
        oc = vf::outcome([&] { got = a.get<std::string>((size_t)0); });
        want = pos.size() > 0 ? "ok:" + pos[0] : "out_of_range:";
        if (pos.size() > 0) pos_used[0] = true;
        break;
      case G_STR_P1_NOTHROW:
        oc = vf::outcome([&] { got = a.get<std::string>((size_t)1, false); });
        want = pos.size() > 1 ? "ok:" + pos[1] : "ok:";
        if (pos.size() > 1) pos_used[1] = true;
        break;
      case G_STR_S:
        oc = vf::outcome([&] { got = a.get<std::string>("s"); });
        want = has_s ? "ok:str" : "ok:";
        s_used = true;
        break;
      case G_STR_N_THROW:
        oc = vf::outcome([&] { got = a.get<std::string>("n", true); });
        if (nvals.size() > 1) dontcare = true;
        want = nvals.size() == 1 ? "ok:" + nvals[0] : "out_of_range:";
        if (nvals.size() == 1) n_used = true;
        break;
      case G_MULTI_STR_N:
        oc = vf::outcome([&] { got = join_strs(a.get_multi<std::string>("n")); });
        want = "ok:" + join_strs(nvals);
        n_used = true;
        break;
      case G_BOOL_V:
        oc = vf::outcome([&] { got = a.get<bool>("v") ? "true" : "false"; });
        want = has_v ? "ok:true" : "ok:false";
        v_used = true;
        break;
      case G_INT_N:
        oc = vf::outcome([&] { got = std::to_string(a.get<int>("n")); });
        if (nvals.size() > 1) dontcare = true;
        want = nvals.size() == 1 ? "ok:" + nvals[0] : "out_of_range:";
        if (nvals.size() == 1) n_used = true;
        break;
      case G_INT_N_DEF:
        oc = vf::outcome([&] { got = std::to_string(a.get<int>("n", 99)); });
        if (nvals.size() > 1) dontcare = true;
        want = nvals.size() == 1 ? "ok:" + nvals[0] : "ok:99";
        if (nvals.size() == 1) n_used = true;
        break;
      case G_MULTI_INT_N:
        oc = vf::outcome([&] { std::vector<std::string> v; for (int x : a.get_multi<int>("n")) v.push_back(std::to_string(x)); got = join_strs(v); });
        want = "ok:" + join_strs(nvals);
        n_used = true;
        break;
      case G_DBL_F:
        oc = vf::outcome([&] { got = vf::fmt("%g", a.get<double>("f")); });
        want = has_f ? "ok:1.5" : "out_of_range:";
        f_used = true;
        break;
      case G_DBL_F_DEF:
        oc = vf::outcome([&] { got = vf::fmt("%g", a.get<double>("f", std::optional<double>(2.5))); });
        want = has_f ? "ok:1.5" : "ok:2.5";
        f_used = true;
        break;
      case G_MULTI_DBL_F:
        oc = vf::outcome([&] { std::vector<std::string> v; for (double x : a.get_multi<double>("f")) v.push_back(vf::fmt("%g", x)); got = join_strs(v); });
        want = has_f ? "ok:1.5," : "ok:";
        f_used = true;
        break;
      case G_INT_P0:
        oc = vf::outcome([&] { got = std::to_string(a.get<int64_t>((size_t)0)); });
        want = pos.size() > 0 ? "ok:" + pos[0] : "out_of_range:";
        if (pos.size() > 0) pos_used[0] = true;
        break;
      case G_U16_P1_DEF:
        oc = vf::outcome([&] { got = std::to_string(a.get<uint16_t>((size_t)1, (uint16_t)42)); });
        want = pos.size() > 1 ? "ok:" + pos[1] : "ok:42";
        if (pos.size() > 1) pos_used[1] = true;
        break;
    }
    r.counters["getter_calls"]++;
    std::string have = oc + ":" + (oc == "ok" ? got : "");
    bool single_on_repeated = (g == G_STR_N_THROW || g == G_INT_N || g == G_INT_N_DEF) && nvals.size() > 1;
    // get_multi on an absent option: an empty vector (library convention) or out_of_range are both within the statement
    bool multi_absent_ok = (g == G_MULTI_STR_N || g == G_MULTI_INT_N) ? (nvals.empty() && oc == "out_of_range") : (g == G_MULTI_DBL_F && !has_f && oc == "out_of_range");
    if (!single_on_repeated && !multi_absent_ok && have != want) {
      bad = true;
      r.fail(std::string("getters:") + GETTER_NAME[g] + ":wrong-result", [&] { return "Arguments(" + list_str(tokens) + "), getters " + getters_str() + ": " + GETTER_NAME[g] + " -> " + have + ", expected " + want; });
    }
  }
  bool all_used = n_used && f_used && v_used && s_used;
  for (bool u : pos_used) all_used = all_used && u;
  std::string oc1 = vf::outcome([&] { a.assert_none_unused(); });
  std::string oc2 = vf::outcome([&] { a.assert_none_unused(); });
  if (dontcare) { r.ok("single-value getter on a repeated option (executed, not compared)"); return; }
  if (oc1 != oc2) { bad = true; r.fail("assert_none_unused:not-idempotent", [&] { return "Arguments(" + list_str(tokens) + "), getters " + getters_str() + ": first call " + oc1 + ", second " + oc2; }); }
  if (all_used && oc1 != "ok") { bad = true; r.fail("assert_none_unused:throws-though-everything-was-read", [&] { return "Arguments(" + list_str(tokens) + "), getters " + getters_str() + ": " + oc1; }); }
  if (!all_used && oc1 != "invalid_argument") { bad = true; r.fail("assert_none_unused:silent-though-an-argument-was-never-read", [&] { return "Arguments(" + list_str(tokens) + "), getters " + getters_str() + ": " + oc1; }); }
  if (!bad) r.ok(tokens.empty() ? "nothing supplied" : all_used ? "everything read: no throw" : "something unread: invalid_argument");
}

}  // namespace

// =====================================================================================================

VF_SECTION(classify, 16, 16, 120) {
  r.note("Arguments::parse");
  for (size_t len = 0; len <= 5; len++) {
    for (vf::Odometer o(std::vector<uint32_t>(len, 13)); !o.done; o.step()) {
      if (!r.take()) continue;
      std::vector<std::string> tokens;
      for (size_t i = 0; i < len; i++) tokens.push_back(TOKENS[o.d[len - 1 - i]]);
      classify_case(r, tokens);
    }
  }
  r.bound = "every token list of length 0..5 over {a, \"\", -, --, -x, -xy, -5, --n, --n=v, --n=, --=v, --n=v=w, --m=7} (402234 lists): three token-list constructors, the string constructor on the space-joined list; getters asked for 15 names (5-token lists: every present name and two absent ones)";
}

VF_SECTION(shell, 8, 8, 120) {
  r.note("Arguments(string)/split_args");
  static const char* LOGICAL[] = {"a", "--n=v", "-xy", "a b", "--n=v w", "it's", "say \"hi\"", "b\\c", "--m=\t7"};
  const size_t NL = sizeof(LOGICAL) / sizeof(LOGICAL[0]);
  static const char* SEPS[] = {" ", "  ", "\t", " \t "};
  std::vector<std::vector<std::string>> rend;
  for (size_t i = 0; i < NL; i++) rend.push_back(renderings(LOGICAL[i]));
  for (size_t len = 0; len <= 3; len++) {
    for (vf::Odometer o(std::vector<uint32_t>(len, (uint32_t)NL)); !o.done; o.step()) {
      std::vector<uint32_t> radix;
      for (size_t i = 0; i < len; i++) radix.push_back((uint32_t)rend[o.d[len - 1 - i]].size());
      for (vf::Odometer ro(radix); !ro.done; ro.step()) {
        for (size_t sep = 0; sep < 4; sep++) {
          for (int edge = 0; edge < 4; edge++) {
            if (len < 2 && sep > 0) continue;
            if (!r.take()) continue;
            std::vector<std::string> tokens;
            std::string line = (edge & 1) ? " " : "";
            for (size_t i = 0; i < len; i++) {
              size_t li = o.d[len - 1 - i];
              tokens.push_back(LOGICAL[li]);
              if (i) line += SEPS[sep];
              line += rend[li][ro.d[i]];
            }
            if (edge & 2) line += "\t ";
            if (r.wants_desc()) r.desc("Arguments(" + vf::show(line) + ") vs Arguments(" + list_str(tokens) + ")");
            RefArgs want = ref_classify(tokens);
            r.nontriv();
            std::vector<std::string> split;
            std::string oc = vf::outcome([&] { split = phosg::split_args(line); });
            std::optional<Arguments> a;
            std::string oc2 = vf::outcome([&] { a.emplace(line); });
            if (oc != "ok" || split != tokens) r.fail("split_args:not-shell-tokens", [&] { return "split_args(" + vf::show(line) + ") -> " + oc + " " + list_str(split) + ", a shell yields " + list_str(tokens); });
            else if (oc2 != "ok" || !(snapshot(*a) == want)) r.fail("classify:string-constructor-differs", [&] { return "Arguments(" + vf::show(line) + ") -> " + oc2 + (a ? " stored " + ref_str(snapshot(*a)) : "") + ", reference " + ref_str(want); });
            else r.ok(len == 0 ? "blank line" : "quoted/escaped tokens");
          }
        }
      }
    }
  }
  // unterminated quotes / dangling backslash / empty quoted arguments: executed for memory safety and
  // termination only (the statement does not settle them)
  static const char* EXEC_ONLY[] = {"\"abc", "'abc", "abc\\", "a \"\" b", "'' x", "\"\"", "a\\", "\"a\\", "--n=\"", "\\"};
  for (const char* s : EXEC_ONLY) {
    if (!r.take()) continue;
    std::string line = s;
    if (r.wants_desc()) r.desc("Arguments(" + vf::show(line) + ") (executed only)");
    std::string oc = vf::outcome([&] { Arguments a(line); (void)vf::outcome([&] { a.assert_none_unused(); }); });
    if (oc != "ok" && oc != "runtime_error") r.fail("split_args:unexpected-exception-type", [&] { return "Arguments(" + vf::show(line) + ") threw " + oc; });
    else r.ok(std::string("don't-care line: ") + oc);
  }
  r.bound = "every list of 0..3 logical tokens from {a, --n=v, -xy, 'a b', '--n=v w', it's, say \"hi\", b\\c, --m=<TAB>7} x every combination of shell renderings (bare, double-quoted, single-quoted, backslash-escaped, half-quoted) x 4 separators x leading/trailing blanks";
}

VF_SECTION(ints, 16, 16, 120) {
  r.note("parse_int");
  // n = 0, 1, -1, 2, -2, ... (simplest first)
  for (int64_t k = 0; k <= 140000; k++) {
    int64_t n = (k % 2) ? (k + 1) / 2 : -(k / 2);
    int64_t an = n < 0 ? -n : n;
    bool near_boundary = an <= 300 || (an >= 32766 && an <= 32770) || (an >= 65534 && an <= 65538) || an >= 69998;
    for (int style = 0; style < 5; style++) {
      for (IntFormat f : FORMATS) {
        if (!r.take()) continue;
        std::string text = render(n, style);
        if (r.wants_desc()) r.desc(vf::fmt("n=%lld rendered as %s: ", (long long)n, style_name[style]) + vf::show(text) + vf::fmt(" read with IntFormat::%s as int8/uint8/int16/uint16/int32/uint32%s", fmt_name(f), near_boundary ? " through all four access paths" : ""));
        int_text_case(r, text, f, false, near_boundary);
      }
    }
  }
  r.bound = "every n in [-70000,70000] x {decimal, 0x-hex, bare hex, 0-octal, bare octal} x IntFormat {DEFAULT,DECIMAL,HEX,OCTAL} x {int8,uint8,int16,uint16,int32,uint32} via get<T>(name,fmt); near type boundaries also get_multi, get with default and positional";
}

VF_SECTION(bounds, 4, 4, 120) {
  r.note("parse_int");
  std::vector<i128> N;
  auto P2 = [](int k) { return (i128)1 << k; };
  // numerals that a modulo-2^64 conversion would turn into small values of the other sign (first, so that
  // the minimal reported case is the plain 2^64-1)
  for (i128 small : {(i128)1, (i128)2, (i128)127, (i128)128, (i128)129, (i128)255, (i128)32768, (i128)32769, P2(31), P2(31) + 1, P2(32) - 1}) { N.push_back(P2(64) - small); N.push_back(-(P2(64) - small)); }
  for (int k : {7, 8, 15, 16, 31, 32, 63, 64}) for (int d = -2; d <= 2; d++) { N.push_back(P2(k) + d); N.push_back(-(P2(k) + d)); }
  i128 p = 1;
  for (int k = 1; k <= 25; k++) { p *= 10; if (k >= 18) { N.push_back(p); N.push_back(-p); N.push_back(p - 1); } }
  N.push_back(P2(65)); N.push_back(P2(96) + 5); N.push_back(-(P2(96) + 5)); N.push_back(P2(64) * 3 - 1);
  for (i128 n : N) {
    for (int style = 0; style < 5; style++) {
      for (IntFormat f : FORMATS) {
        if (!r.take()) continue;
        std::string text = render(n, style);
        if (r.wants_desc()) r.desc("n=" + s128(n) + " rendered as " + style_name[style] + ": " + vf::show(text) + vf::fmt(" read with IntFormat::%s as all eight integer types through all access paths", fmt_name(f)));
        int_text_case(r, text, f, true, true);
      }
    }
  }
  // garbage around numerals
  static const char* NUMS[] = {"", "0", "7", "12", "-3", "0x1f", "017", "ff", "-0", "00", "08", "0x", "-", "9"};
  static const char* AFFIX[] = {"", "x", "+", "-", ".", "0x", "1 ", "_", " ", "\t", "0", "e1", "\n"};
  for (const char* num : NUMS) {
    for (const char* pre : AFFIX) {
      for (const char* suf : AFFIX) {
        for (IntFormat f : FORMATS) {
          if (!r.take()) continue;
          std::string text = std::string(pre) + num + suf;
          if (r.wants_desc()) r.desc("text " + vf::show(text) + vf::fmt(" (prefix %s + numeral %s + suffix %s) read with IntFormat::%s as all eight integer types", vf::show(pre).c_str(), vf::show(num).c_str(), vf::show(suf).c_str(), fmt_name(f)));
          int_text_case(r, text, f, true, false);
        }
      }
    }
  }
  r.bound = "boundary numerals +-(2^k + {-2..2}) for k in {7,8,15,16,31,32,63,64}, +-(2^64 - small), 10^18..10^25, 2^65, 2^96+5 x 5 renderings x 4 formats x 8 targets x 4 access paths (64-bit targets compared only for |n| < 2^63); 14 numerals x 13 prefixes x 13 suffixes x 4 formats x 8 targets";
}

VF_SECTION(floats, 8, 8, 120) {
  r.note("parse_float");
  static const char* D1[] = {"0", "1", "9"};
  std::vector<std::string> ints, fracs = {""}, exps = {""};
  for (auto a : D1) { ints.push_back(a); for (auto b : D1) ints.push_back(std::string(a) + b); }
  for (auto a : D1) { fracs.push_back(std::string(".") + a); for (auto b : D1) fracs.push_back(std::string(".") + a + b); }
  for (const char* sg : {"", "+", "-"}) for (auto a : D1) { exps.push_back(std::string("e") + sg + a); for (auto b : D1) exps.push_back(std::string("e") + sg + a + b); }
  for (const char* sign : {"", "-", "+"}) {
    for (auto& ip : ints) for (auto& fp : fracs) for (auto& ep : exps) {
      if (!r.take()) continue;
      float_text_case(r, std::string(sign) + ip + fp + ep);
    }
  }
  // other literal shapes and garbage
  static const char* BASE[] = {"", "1.5", ".5", "5.", "1e5", "1E5", "1.e5", ".", "e5", ".e5", "1e", "1e+", "1e-", "1..5", "1.5.2", "1,5", "--5", "-", "+", "1e5.5", "1e400", "1e-400", "0x10", "0x1p3", "inf", "nan", "infinity", "123456789012345678901234567890", "0.1", "0.30000000000000004", "2.2250738585072014e-308", "1.7976931348623157e308", "4.9e-324", "3.4028235e38", "3.5e38", "1e39"};
  static const char* AFFIX[] = {"", "x", "+", "-", ".", "0x", "1 ", "_", " ", "\t", "f", "e", "\n"};
  for (const char* b : BASE) for (const char* pre : AFFIX) for (const char* suf : AFFIX) {
    if (!r.take()) continue;
    float_text_case(r, std::string(pre) + b + suf);
  }
  r.bound = "all literals [+-]d[d][.d[d]][e[+-]d[d]] over digits {0,1,9} (17316) and 36 further shapes x 13 prefixes x 13 suffixes; get<double>/get<float> through four access paths each; value vs std::from_chars within 1 ulp";
}

VF_SECTION(unused, 16, 16, 120) {
  r.note("assert_none_unused");
  // thorough: every subset of the 14 getters.  quick: every subset of two 12-getter families that
  // together contain all 14 (each family leaves out two getters whose sibling stays in)
  std::vector<unsigned> families;
  if (r.thorough()) families = {(1u << NGETTERS) - 1};
  else families = {((1u << NGETTERS) - 1) & ~((1u << G_STR_N_THROW) | (1u << G_U16_P1_DEF)), ((1u << NGETTERS) - 1) & ~((1u << G_STR_S) | (1u << G_INT_P0))};
  for (size_t fi = 0; fi < families.size(); fi++) {
    std::vector<int> members;
    for (int g = 0; g < NGETTERS; g++) if (families[fi] & (1u << g)) members.push_back(g);
    for (unsigned argmask = 0; argmask < 128; argmask++) {
      if (__builtin_popcount(argmask) > 4) continue;
      for (unsigned sub = 0; sub < (1u << members.size()); sub++) {
        unsigned getmask = 0;
        for (size_t k = 0; k < members.size(); k++) if (sub & (1u << k)) getmask |= 1u << members[k];
        // second family: subsets already seen in the first one are skipped
        if (fi > 0 && (getmask & ~families[0]) == 0) continue;
        if (!r.take()) continue;
        unused_case(r, argmask, getmask);
      }
    }
  }
  r.bound = r.thorough() ? "every set of <=4 arguments from {7, 300, --n=5, --n=6, --f=1.5, -v, --s=str} (99 sets) x every subset of 14 getters (16384), then assert_none_unused() twice"
                         : "every set of <=4 arguments from {7, 300, --n=5, --n=6, --f=1.5, -v, --s=str} (99 sets) x every subset of two overlapping 12-getter families covering all 14 getters (7168 subsets), then assert_none_unused() twice";
}

VF_MAIN()
