// C13 round 5 — coordinate worlds of the chain / bushy sections (see C13_chain.hh): Vector3<int64_t>, Vector2<float>, Vector2<uint64_t>.
#include "C13_chain.hh"

namespace c13chain {
TreeIf* make_world_tu2(int k) {
  switch (k) {
    case 0: return new TreeImpl<Vector3<int64_t>>("Vector3<int64_t>");
    case 1: return new TreeImpl<Vector2<float>>("Vector2<float>");
    default: return new TreeImpl<Vector2<uint64_t>>("Vector2<uint64_t>");
  }
}
}  // namespace c13chain
