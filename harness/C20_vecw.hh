// C20 (vectors) — other component types (signed and unsigned, narrow and wide, float) and boundary components for
// int64_t / double: the same componentwise oracle as the small-component sections; operations whose C++ meaning is
// undefined on the operands are skipped.  Included by C20_vecw{1,2,3}.cc (two or three component types each).
#include "C20_vec.hh"

using namespace c20;

template <class... Ts>
void wide_section(vf::Run& r) {
  std::string types;
  ((wide_type<Ts>(r), types += std::string(types.empty() ? "" : ", ") + tname<Ts>()), ...);
  (wide_order<Ts>(r), ...);
  r.bound = vf::fmt("Vector2/3/4<T> for T in {%s} over boundary component alphabets (type limits, 2^(w/2)+-1, +-2^31(+1), +-2^52(+1), +-0.0, +-inf, 2^53, 1e308, denormal): "
                    "Vector2 all ordered pairs over the full alphabet (11-17 values), Vector3 over its first %d, Vector4 over its first %d values, every vector x every scalar of the full alphabet; "
                    "aliased-operand forms on every one of those vectors (v op= v.<component> and v = v op v.<component> for op in + - * / %%, every component by each of its names and through at(i); v = v + v, v = v - v, v = -v; results assigned over either operand); "
                    "operations undefined in C++ on the operands (signed overflow, /0, MIN/-1) neither executed nor compared; "
                    "operator< strict-weak-order laws on all triples (no NaN): Vector2 over the first 6 alphabet values (46656 triples), Vector3 over the first 3 (19683), Vector4 over the first 2 (4096)",
      types.c_str(), r.thorough() ? 7 : 5, r.thorough() ? 5 : 4);
}
