from props import P

CFG = P(
        harness=["harness/C20.cc", "harness/C20_mat.cc", "harness/C20_vec.cc", "harness/C20_vecw1.cc", "harness/C20_vecw2.cc", "harness/C20_vecw3.cc"],
        harness_deps=["harness/C20_common.hh", "harness/C20_vec.hh", "harness/C20_vecw.hh"],
        srcs=["Random.cc", "Filesystem.cc", "Strings.cc", "Process.cc", "Time.cc", "Encoding.cc"],
        ldflags=["-Wl,--wrap=read"],
        rule="a case is non-trivial when it executes the function under test on a distinct input (or a distinct history of calls / environment plan) and decides its defining equation; gcd(0,0) and child reports that could not be parsed are not counted",
        bounds={"quick": "all sections enumerated completely (see per-section bounds): gcd/reduce_fraction on [0,300]^2, the type limits, ALL pairs of the power alphabet {2^k-1,2^k,2^k+1,3*2^k,6*2^k} of every width and 2-/3-call histories; "
                         "log2i on every value up to 2^16, every 2^k, 2^k+-1, two-bit value, run of ones, byte-lane value and u-v-u histories; random_int on every span 2^k-2..2^k+1 (k<=63) x boundary lo x 8 owned streams; "
                         "random_data histories of <=3 requests over 13 sizes around the refill boundary, continued after fork, and with the 1st/2nd/3rd read failing or short; Vector2/3/4 over small components (2 types) and boundary "
                         "components (8 types); Matrix4 products of perturbed identities (4 types, incl. one large entry); inversion of 3^12 + 16 sign patterns x 5 scales x 2049 diagonally dominant matrices and in exception contexts",
                "thorough": "quick bounds plus all 2^32 values for log2i<uint32_t>/<int32_t>, all 1985^2 ordered matrix pairs, random_data sizes up to 65537, wider Vector3/4 boundary alphabets, inversion scales 2^+-1000 and two more dense 3^12 sweeps"},
        explanation="E-ENUM over the real templates with defining-equation oracles; E-ENV for random_int/random_data: read() is interposed at link time and serves enumerated streams (and enumerated failures) for the /dev/urandom descriptor, "
                    "every history runs in a child forked from a parent that never touched the static buffer; pure functions are additionally run in histories of two/three calls with ambient errno owned by the engine; "
                    "a division trap (SIGFPE) inside gcd/reduce_fraction is caught per call and reported as an outcome",
        assumptions=[
            "gcd/reduce_fraction: non-negative operands only; reduce_fraction(0,0) (division by zero) is not called",
            "log2i: positive arguments only",
            "random_int: hi-lo < 2^63; 'random in [lo,hi]' is read as: result in [lo,hi] for every entropy stream, and for ranges <= 256 every value of [lo,hi] is produced when the consumed bytes run through all 256 values",
            "random_data: in the sections random_int/random_data reads on /dev/urandom are served completely; the flow of stream positions to output positions does not depend on the byte values (needed to decode positions from three runs, and checked: bytes read and outcomes must agree between streams)",
            "random_data with a failing or short read (section random_env): whether the affected and later requests throw is not compared; demanded only: no write outside the request, no exception while every read was complete, and a request that returns normally has all its bytes from the stream (re-delivery of bytes after a failed read is not compared)",
            "Vector norm1() is executed but not compared (the statement does not define it; the library returns the plain component sum); str() is not called; division/modulo by a zero scalar is not executed",
            "Vector operations whose C++ meaning is undefined on the operands (signed overflow in int/int64_t arithmetic, MIN / -1, negation of MIN) are neither executed nor compared; 8/16-bit component types are compared with the language's own rule (computed in int, stored modulo 2^w); unsigned types modulo 2^w; no NaN components (operator< would not be a strict weak order)",
            "floating-point vectors are compared with the same expression evaluated left to right in the component type (IEEE, no contraction); cross-product orthogonality / Lagrange identity only where the arithmetic is exact (small integers, or 32/64-bit integer types without overflow)",
            "Matrix4 storage convention (m[column][row]) is taken from operator*(Vector4) and confirmed by the matrix*vector check against the textbook product",
            "Matrix4 (op) scalar and += / -= are executed but not compared (outside the statement); matrix entries are chosen so that every product and sum is exactly representable (the library accumulates products in double)",
            "matrix inversion: double only, strictly diagonally dominant matrices (any sign pattern, any power-of-two scale), tolerance 1e-9; inversion of singular matrices and a second in-place inversion are executed, not compared",
        ],
        engine="E-ENUM + E-ENV",
        technique="exhaustive enumeration of operand pairs/triples and call histories per integer width, component type and vector dimension on the real templates; owned entropy stream (with enumerated read failures) behind a link-time wrapped read() with fork-per-history for the function-local static buffer",
        level_text="Every pair in [0,300]^2, the type boundaries and all pairs of powers of two +-1 (and 3*2^k, 6*2^k) for ten integer types (gcd, reduce_fraction, also as two- and three-call histories), every 8/16-bit value, every power of two +-1, "
                   "two-bit value and byte-lane value of every width (thorough: all 2^32 values) for log2i, every pair of small-integer Vector2/3/4 and of boundary-valued vectors over eight component types, every triple for operator<, "
                   "every product of up to three elementary matrices (four entry types) and all 3^12 + 16 x 5 x 2049 diagonally dominant matrices for inversion are executed on the real code against their defining equations; "
                   "random_int/random_data run against an enumerated /dev/urandom stream (every span 2^k-2..2^k+1, every <=3-request history over 13 sizes, fork, failing reads) in pristine forked processes.",
        level_note="Trusted: libstdc++ std::gcd (binary gcd) as the second gcd oracle, the C++ arithmetic operators (with GCC overflow builtins) as the componentwise definition, the textbook matrix product in the harness. Entropy streams are the enumerated ones, not all streams.",
        deadline={"quick": 600, "thorough": 3600},
    )
