from props import P

CFG = P(
        harness=["harness/C20.cc"], srcs=["Random.cc", "Filesystem.cc", "Strings.cc", "Process.cc", "Time.cc", "Encoding.cc"],
        ldflags=["-Wl,--wrap=read"],
        rule="a case is non-trivial when it executes the function under test on a distinct input and decides its defining equation; gcd(0,0) and child reports that could not be parsed are not counted",
        bounds={"quick": "all sections enumerated completely (see per-section bounds); log2i on 32-bit types: every value up to 2^16 and every 2^k, 2^k+-1",
                "thorough": "quick bounds plus all 2^32 values for log2i<uint32_t>/<int32_t> and all 1985^2 ordered matrix pairs"},
        explanation="E-ENUM over the real templates with defining-equation oracles; E-ENV for random_int/random_data: read() is interposed at link time and serves enumerated streams for the /dev/urandom descriptor, every history runs in a child forked from a parent that never touched the static buffer",
        assumptions=[
            "gcd/reduce_fraction: non-negative operands only; reduce_fraction(0,0) (division by zero) is not called",
            "log2i: positive arguments only",
            "random_int: hi-lo < 2^63; 'random in [lo,hi]' is read as: result in [lo,hi] for every entropy stream, and for ranges <= 256 every value of [lo,hi] is produced when the consumed bytes run through all 256 values",
            "random_data: reads on /dev/urandom are served completely (no short reads); the flow of stream positions to output positions does not depend on the byte values (needed to decode positions from three runs)",
            "Vector norm1() is executed but not compared (the statement does not define it; the library returns the plain component sum); str() is not called; division/modulo by a zero scalar is not executed",
            "Matrix4 storage convention (m[column][row]) is taken from operator*(Vector4) and confirmed by the matrix*vector check against the textbook product",
            "matrix inversion: double only, strictly diagonally dominant matrices, tolerance 1e-9",
        ],
        engine="E-ENUM + E-ENV",
        technique="exhaustive enumeration of operand pairs/triples per integer width and vector dimension on the real templates; owned entropy stream behind a link-time wrapped read() with fork-per-history for the function-local static buffer",
        level_text="Every pair in [0,300]^2 and the type boundaries for eight integer widths (gcd, reduce_fraction), every 8/16-bit value and every power of two +-1 of every width (thorough: all 2^32 values) for log2i, every pair of small-integer Vector2/3/4 and every triple for operator<, every product of up to three elementary matrices and all 3^12 diagonally dominant matrices for inversion are executed on the real code against their defining equations; random_int/random_data run against an enumerated /dev/urandom stream in pristine forked processes.",
        level_note="Trusted: libstdc++ std::gcd (binary gcd) as the second gcd oracle, the C++ arithmetic operators as the componentwise definition, the textbook matrix product in the harness. Entropy streams are the enumerated ones, not all streams.",
        deadline={"quick": 600, "thorough": 3600},
    )
