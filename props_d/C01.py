from props import P

CFG = P(
        harness=["harness/C01.cc"],
        harness_deps=["harness/C01_kinds.hh", "harness/C01_hist.hh", "harness/C01_blocks.hh"],
        srcs=["Strings.cc", "Filesystem.cc", "Process.cc", "Time.cc", "Encoding.cc"],
        rule="a case is one (accessor kind, value) pair, one operation history, one reader content with its complete call tree, or one bit string; every case compares produced bytes and/or returned values and cursor positions with the reference model, so every case is non-trivial; cases are pairwise distinct by construction (odometer enumeration)",
        bounds={
            "quick": "all values of all 8/16-bit accessors; all 2^24 inputs of the 24-bit getters; 32-bit: L9^4 lane set + structured values; 48-bit: L5^6 + structured; 64-bit: L5^8 + structured + float specials; all StringWriter/BufferWriter histories of length <= 3 over 54 operations; all reader contents over {a,NUL,LF,CR}^<=7 x all call sequences of length <= 3; all bit strings of length <= 16",
            "thorough": "quick plus: all 2^32 bit patterns through the twelve 32-bit put/get accessors; StringWriter histories of length <= 4 over 83 operations, BufferWriter histories of length <= 4 over 54 operations; all bit strings of length <= 20",
        },
        explanation="E-ENUM value sweeps on the real StringWriter/BufferWriter/StringReader accessors against an independent lane-by-lane encoder/decoder over uint64_t; exhaustive un-merged operation histories against a byte-vector model with read-back in three orders; call trees of cstr/line/raw reads against a list-of-bytes model; BitWriter/BitReader against a list-of-bits model",
        assumptions=[
            "native-order accessors (put_u16, get<uint16_t>) are held to little-endian layout and the r forms to big-endian layout, because that is what they mean on this host",
            "48- and 64-bit values outside the lane/walking/special sets are not enumerated (2^48/2^64); the sets contain every combination of {00,01,7F,80,FF} in every byte lane, which is complete for byte-permutation and sign-bit logic",
            "get_line: the line ends at LF or at the end of the data and one trailing CR is dropped (behaviour of the library, not stated in the header); reads that find no complete item at the cursor (no NUL for get_cstr, fewer bytes than asked for readx/get_u8, get_line at the end) are only required to throw, their cursor effect is a don't-care",
            "BufferWriter histories run with a capacity that is sufficient for every operation of the history; overflow behaviour belongs to C02",
            "float and double values are compared as bit patterns; x86-64 SSE moves preserve signalling-NaN payloads",
        ],
        engine="E-ENUM + un-merged history enumeration",
        technique="bounded exhaustive enumeration of accessor values and operation histories on the real writers/readers, compared with an independent encoder/decoder and byte-vector model",
        level_text="Every 8/16-bit value and every 24-bit input of every accessor, lane-complete value sets for 32/48/64-bit accessors (all 2^32 patterns in the thorough tier), every operation history up to the stated length and every call sequence over every small reader content are executed on the real code; within these bounds the verdict is a coverage statement, not a sample.",
        level_note="Trusted: the lane-by-lane reference encoder/decoder and the byte/bit list models in harness/C01_*.hh; host is little-endian so the PHOSG_BIG_ENDIAN branches are not executed.",
        deadline={"quick": 600, "thorough": 3600},
    )
