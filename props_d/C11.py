from props import P

CFG = P(
        harness=["harness/C11.cc"], srcs=["Encoding.cc", "Strings.cc", "Network.cc", "Filesystem.cc", "Process.cc", "Time.cc"],
        oracle="C11",
        rule="a case is one (function, mode, input string) triple (for netloc: (host, port, default)); inputs are enumerated by odometer over fixed alphabets so all triples are distinct; every case is non-trivial (it calls the real function and is decided by a reference model)",
        bounds={
            "quick": "base64 encode+round trip: all byte strings of length 0..2 x 3 alphabet modes, 16^3 length-3 and 4^4..4^8 longer strings; strict decode: all strings of length 0..4 over 15 symbols, all strings of length 5..8 over 6 symbols, every single-byte substitution of the encodings of all inputs of length 1..4 over 4 symbols and 5..6 over 2 symbols (both alphabets each); rot13 and the five escaper variants on all byte strings of length 0..2 (+ 12^3+12^4 longer ones); netloc 399 hosts x all 65536 ports",
            "thorough": "as quick, with ALL 2^24 byte strings of length 3 through encode/decode and single-byte substitutions for all inputs of length 1..6 over 4 symbols and 7..9 over 2 symbols",
        },
        explanation="E-ENUM over the real functions; oracle = independent RFC 4648 encoder and strict decoder, arithmetic rot13, percent-decoder and C-style unescaper, the (host, port) pair; quick-tier sets are replayed through Python base64/codecs/urllib",
        assumptions=[
            "base64 inputs whose last data character carries non-zero unused bits (non-canonical) are a don't-care for accept/reject; an accepted value must still equal the data bits",
            "'no raw quote' for escape_quotes is read as: every '\"' in the output is directly preceded by a backslash (the statement does not claim the quote escaper is decodable; it does not escape backslashes)",
            "the C-style unescaper takes exactly two hex digits after \\x (the library's documented \"\\x%02X\" form)",
            "escape_url's permitted raw characters are [A-Za-z0-9] - _ . ~ = & and, when escape_slash is false, /",
            "netloc hosts are non-empty, colon-free, over {a . - [ ] space 1}; round trip is taken with default_port 0 (port 0 is rendered without a port) and, for ports 1..65535, also with a non-zero default",
            "custom alphabets other than the two published ones are not exercised",
        ],
        engine="E-ENUM",
        technique="exhaustive enumeration of short byte strings and of reduced-alphabet grids (valid, padding and invalid characters at every position) against reference codecs, plus Python stdlib replay",
        level_text="All byte strings of length 0..2 (length 3 in the thorough tier) go through base64 encode/decode for both alphabets; strictness is decided on complete grids: every string of length 0..4 over 15 symbols and 5..8 over 6 symbols, and every single-byte substitution of valid encodings; rot13 and all escapers run on every byte string of length 0..2 with independent unescapers; render/parse_netloc on 399 hosts x all ports.",
        level_note="Trusted: the reference codecs in the harness, bound on the quick set to Python base64/codecs/urllib. Longer strings only over reduced alphabets.",
        deadline={"quick": 600, "thorough": 3600},
    )
