from props import P

CFG = P(
        harness=["harness/C19.cc"], srcs=["UnitTest.cc", "Strings.cc", "Filesystem.cc", "Process.cc", "Time.cc", "Encoding.cc"],
        rule="complete enumeration of (relation, operand pair) over six boundary sets and of the 10x12 (expected type, behaviour) matrix; every case is distinct and non-trivial (it decides throw/no-throw)",
        bounds={"quick": "finite space, enumerated completely", "thorough": "finite space, enumerated completely"},
        explanation="E-ENUM over the real macros/templates; oracle = the C++ relation itself and std::is_base_of",
        assumptions=["operands are int, int64, uint64, std::string, double (including NaN), bool"],
        engine="E-ENUM",
        technique="exhaustive enumeration of the finite (relation, operands) and (expected type, behaviour) spaces on the real helpers",
        level_text="Every relation macro x every ordered operand pair of six boundary sets and the full 10x12 matrix of expect_raises<E> x callee behaviour are executed on the real helpers; the space is finite and enumerated completely, so within it the verdict is a coverage statement, not a sample.",
        level_note="Trusted: the C++ comparison operators and std::is_base_of used as the oracle; operand types limited to int/int64/uint64/string/double/bool.",
    )
