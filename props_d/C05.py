from props import P

CFG = P(
        harness=["harness/C05.cc"], harness_deps=["harness/C04_jsonref.hh"],
        srcs=["JSON.cc", "Strings.cc", "Filesystem.cc", "Process.cc", "Time.cc", "Encoding.cc"],
        oracle="C05", flags=[],
        deadline={"quick": 900, "thorough": 5400},
        rule="a case is one input text given to all three entry points in both modes (6 parses, counted as transitions) from an exact-size heap block; it is non-trivial when at least one "
             "of the six calls returned a value or the reference recognises a complete value at the start of the text (everything else is rejected at once by both). Texts are distinct within a "
             "section by construction (odometer over the alphabet; distinct derivations / truncation lengths / edit positions).",
        bounds={
            "quick": "bytes16: all 1 118 481 byte strings of length <=5 over the 16 symbols { } [ ] , : \" \\ / 0 1 - . e n LF; grammar: all RFC 8259 derivations up to 5 tokens over 47 atoms/12 keys and "
                     "6-7 tokens over 10 atoms/4 keys, 3 whitespace renderings, every truncation, 11 delimiter/junk suffixes; ext: each of those documents rewritten with each documented extension; "
                     "mutate: every single-byte insertion/substitution/deletion (28 symbols) at every position of a 68-document corpus; deep: nesting 499/500 (lists, dictionaries, mixed, padded, "
                     "extension forms), every truncation of the three 500-deep documents, 501/600 deep for totality; all x {default, strict} x {StringReader, ptr+size, std::string}",
            "thorough": "bytes16 up to length 6 (17.9 M strings); bytes28: all strings of length <=5 over the full 28-symbol alphabet (17.9 M); grammar/ext over all derivations up to 7 tokens with the "
                        "full atom set and 8-9 tokens with the reduced one; mutate with 44 symbols; deep as quick",
        },
        explanation="E-ENUM over input texts; one oracle for every text: reference models R_std (RFC 8259) and R_ext (R_std + the four extensions documented in JSON.hh) from harness/C04_jsonref.hh "
                    "decide whether the text is standard, extension-only, value+trailing-data or don't-care; exceptions other than JSON::parse_error / std::out_of_range, wrong values, strict-mode "
                    "acceptance of extensions, accepted trailing data and wrong reader extents are violations; ASan on exact-size buffers decides 'reads nothing outside the input'. Every text of "
                    "the quick-tier families is replayed through Python json.loads by oracles/C05.py to bind R_std.",
        assumptions=[
            "don't-care beyond totality (executed, result not compared): texts neither R_std nor R_ext accepts (the library may be lenient: leading zeros, '+', raw control characters, \\x escapes, "
            "bare '-', 1. and the like); integers outside int64; fraction/exponent numbers that are not finite normal doubles; \\u escapes above U+00FF; duplicate keys; nesting above 500; "
            "comments terminated by a bare CR",
            "int/float kind of the parsed number is not compared (the statement asks for the value): an integer literal must come back exactly, a fraction/exponent literal to relative 1e-9",
            "reader-extent and trailing-data rules are applied only when the byte after the value is end of text, whitespace, ',', ']' or '}' (so the token boundary is unambiguous)",
            "strict-mode rejection of an extension is checked on the string entry points as 'throws'; on the reader entry point as 'throws or stops before the end of the extension construct'",
            "texts containing an exponent of 7 or more digits are classified and bound to Python but not executed (outside double range; the parser's exponent loop is linear in the exponent value, "
            "up to 2^31 iterations - it terminates, in seconds)",
            "documented extensions are read from JSON.hh: trailing commas, hexadecimal integers (-?0x[0-9A-Fa-f]+), n/t/f, // comments up to end of line; nothing else is required of default mode",
            "Python binding: texts decoded as latin-1, NaN/Infinity refused via parse_constant; json.loads is trusted as the independent RFC 8259 reader",
        ],
        engine="E-ENUM",
        technique="exhaustive enumeration of byte strings, grammar derivations, truncations and single-edit mutants through all three parse entry points in both modes on the real parser under ASan, "
                  "against RFC 8259 / documented-extension reference recognisers bound to Python json",
        level_text="Every byte string over the stated alphabet up to the length bound, every derivation of the JSON grammar up to the token bound (with every truncation and delimiter/junk suffix), "
                   "every extension rewrite and every single-byte edit of the corpus is parsed by the code compiled from the repository through all three entry points in default and strict mode, from "
                   "exact-size unterminated heap buffers under AddressSanitizer. Totality (only documented exceptions, no out-of-bounds read), standard conformance with reference values, strict-mode "
                   "rejection of each documented extension, trailing-data rejection and reader extent are decided for each text. Within the bounds this is a coverage statement, not a sample.",
        level_note="Trusted: the reference recognisers R_std/R_ext in harness/C04_jsonref.hh (R_std is bound to Python json.loads on every text of the quick-tier families, count in "
                   "traces_validated_against_impl); AddressSanitizer for bounds. Not covered: texts longer than the length bound that are not grammar-generated or single edits of the corpus; "
                   "termination is observed per case with a 120-180 s stall watchdog, not proved.",
    )
