from props import P

CFG = P(
        variants={
            "preempt": dict(pairs_text="14 JSON::parse calls (default and strict mode; accepted, rejected and extension-syntax texts), each observed through serialize(SORT_DICT_KEYS)", harness=["harness/C05_preempt.cc"], harness_deps_extra=["harness/preempt_pure.hh", "engine/preempt.hh"], src_cxxflags={"JSON.cc": ["-fsanitize-coverage=trace-pc"]}, first=True, tiers=["quick", "thorough"], no_tls=["JSON.cc"]),
        },
        harness=["harness/C05.cc", "harness/C05_r2.cc", "harness/C05_r5.cc"], harness_deps=["harness/C05_common.hh", "harness/C04_jsonref.hh"],
        srcs=["JSON.cc", "Strings.cc", "Filesystem.cc", "Process.cc", "Time.cc", "Encoding.cc"],
        oracle="C05", flags=[],
        deadline={"quick": 2700, "thorough": 10800},
        rule="a case is (a) one input text given to a set of entries x {default, strict} from exact-size heap blocks - the core set is the three entry points (6 parses); the full set adds the three "
             "overloads with the mode argument defaulted, a reader positioned at offset 10 of a larger buffer and a sub-reader over a window of a larger buffer (13 parses); the contexts section "
             "adds readers built by the other StringReader constructors and offset 1 (19 parses); every parse is a transition - or (b) one history of 2-3 parse calls / one repeated-call history / "
             "one stream of 2-4 values read from one reader. A text case is non-trivial when at least one call returned a value or the reference recognises a complete value at the start of the "
             "text (everything else is rejected at once by both); history and stream cases are all non-trivial (every call is compared with the memoryless reference). Texts are distinct within a "
             "section by construction (odometer over the alphabet; distinct derivations / truncation lengths / edit positions / template fillings); histories are distinct step tuples.",
        bounds={
            "quick": "bytes16: all 1 118 481 byte strings of length <=5 over the 16 symbols { } [ ] , : \" \\ / 0 1 - . e n LF (length <=4 through the full entry set); grammar: all RFC 8259 derivations "
                     "up to 5 tokens over 47 atoms/12 keys and 6-7 tokens over 10 atoms/4 keys, 3 whitespace renderings, every truncation, 11 delimiter/junk suffixes; ext: each of those documents "
                     "rewritten with each documented extension; mutate: every single-byte insertion/substitution/deletion (28 symbols) at every position of a 68-document corpus; deep: nesting exactly "
                     "499/500 (lists, dictionaries, alternating, padded, extension forms), every truncation of the three 500-deep documents, 501 (list, dictionary, alternating) and 600 deep for "
                     "totality; allbytes: every byte value 0x00-0xFF in the hole of 46 templates (raw in strings and keys, after a backslash, \\u digits, token start, between tokens, after the value, in "
                     "comments, in numbers) and every ordered pair of byte values in 4 templates (string content, bare text, \\u00XY, key); bounds: integers 2^k-1, 2^k, 2^k+1 (k = 0..64, both signs) in "
                     "10 spellings x 4 placements, numbers of 15..400 digits in 23 shapes, exponents 0..999999, strings/keys of 0..65536 bytes x 6 contents, whitespace runs and comments of 1..65536 "
                     "bytes at every position, lists of 0..65536 and dictionaries of 0..4096 elements; hist: every ordered pair and every A-B-A history over 376 steps (66 texts x 3 entry points x 2 "
                     "modes), every ordered triple over 96 steps, same buffer address and std::string object for every call; soak: each of the 376 steps repeated 20 000 times (200 for 500-deep texts) "
                     "then all 184 accepted steps, 2 round-robin histories of 40 rounds; contexts: 111 texts x {8 calling contexts, 6 errno values} x 11 entries; streams: every sequence of 2-3 values "
                     "out of 14 x 7 separators x 2 modes read from one reader; numgrid (round 5): decimal numbers as a grid digit-string shape x exponent - <I digits>[.<F digits>] for I in {1,2,15..20,38..40,"
                     "76..80,150,299..312,330,400,700} x F in {0,1,2,17,40,80,310,700}, 0.<Z zeros><S digits> for Z in {0,1,2,17,80,299,300,307,308,309,323,324,400,700} x S in {1,2,17,40,310,700}, "
                     "1000/2500/5000-digit integer parts and zero runs (368 shapes) x 4 digit fills (1000.., 999.., 777.., 10..01) x sign x {no exponent, 63 raw exponents 0..+-5000 around +-308, "
                     "+-324, +-400, +-1000, +-5000, up to 30 exponents chosen so that the value is 1e-340..1e330 on a 30-step ladder} = 258 356 number texts through the full entry set, plus 5 816 "
                     "documents holding all in-range numbers of one (shape, fill, sign) as the elements of one list / the values of one dictionary; all x {default, strict}",
            "thorough": "bytes16 up to length 6 (17.9 M strings); bytes28: all strings of length <=5 over the full 28-symbol alphabet (17.9 M); grammar/ext over all derivations up to 7 tokens with the "
                        "full atom set and 8-9 tokens with the reduced one (truncations of documents beyond the quick bound through the core entry set); mutate with 44 symbols; deep as quick; allbytes "
                        "with 12 two-hole templates; bounds plus 65535/65537-element and 65537-byte sizes; hist: ordered triples over all 366 non-deep steps (49 M histories); soak: 200 000 repetitions "
                        "(2 000 for deep texts), 400 round-robin rounds; streams of up to 4 values; numgrid plus 6 shapes with 1000/2500/5000 digits on both sides of the point",
        },
        explanation="E-ENUM over input texts, call histories and calling contexts; one memoryless oracle (c05::Judge) for every call: reference models R_std (RFC 8259) and R_ext (R_std + the four "
                    "extensions documented in JSON.hh) from harness/C04_jsonref.hh decide whether the text is standard, extension-only, value+trailing-data or don't-care; exceptions other than "
                    "JSON::parse_error / std::out_of_range, wrong values, strict-mode acceptance of extensions, accepted trailing data and wrong reader extents are violations; ASan on exact-size "
                    "buffers (and a poisoned buffer tail in histories) decides 'reads nothing outside the input', and a reader whose buffer continues before/after the text must behave exactly like the "
                    "reader over the exact copy. Histories, soak, contexts and streams apply the same oracle to every call, so any dependence on earlier calls, thread, errno or calling context is a "
                    "violation of the same key family. Every text of the text families is replayed through Python json.loads by oracles/C05.py to bind R_std. Number values: R_std converts "
                    "with glibc strtod (correctly rounded); in numgrid every in-range value is also compared bit-exactly with std::from_chars inside the harness and with Python float() "
                    "in the Python stage (17 significant digits), so the reference value of a long-mantissa / large-exponent numeral is bound to two independent correctly rounded conversions.",
        assumptions=[
            "don't-care beyond totality (executed, result not compared): texts neither R_std nor R_ext accepts (the library may be lenient: leading zeros, '+', raw control characters, \\x escapes, "
            "bare '-', 1. and the like); integers outside int64; fraction/exponent numbers that are not finite normal doubles; \\u escapes above U+00FF; duplicate keys; nesting above 500; "
            "comments terminated by a bare CR",
            "int/float kind of the parsed number is not compared (the statement asks for the value): an integer literal must come back exactly, a fraction/exponent literal to relative 1e-9 "
            "(also for numerals of up to 5000 digits and exponents up to +-5000 whose value is a finite normal double: the statement bounds the number, not its spelling); numerals whose value "
            "overflows, underflows to zero or is denormal are executed for totality only",
            "reader-extent and trailing-data rules are applied only when the byte after the value is end of text, whitespace, ',', ']' or '}' (so the token boundary is unambiguous)",
            "strict-mode rejection of an extension is checked on the string entry points as 'throws'; on the reader entry point as 'throws or stops before the end of the extension construct'",
            "exponent fields are enumerated up to +-5000 in numgrid (and up to 999999 with short mantissas in bounds); texts containing an exponent of 7 or more significant digits are classified and bound to Python but not executed (outside double range; the parser's exponent loop is linear in the "
            "exponent value, up to 2^31 iterations - it terminates, in seconds)",
            "documented extensions are read from JSON.hh: trailing commas, hexadecimal integers (-?0x[0-9A-Fa-f]+), n/t/f, // comments up to end of line; nothing else is required of default mode",
            "the overloads called without the mode argument must behave as default mode (JSON.hh: extensions 'are enabled by default')",
            "a call's result must not depend on earlier calls, on the thread, on ambient errno or on the C++ calling context (the statement quantifies over byte strings x modes x entry points only); "
            "histories are bounded: 2-3 calls, or one step repeated 20 000 (thorough 200 000) times; calling contexts: plain, catch handler, destructor during (nested) unwinding, noexcept frame, "
            "std::function, second thread; signal handlers, coroutines, static destruction and locales other than C are not covered (no other locale is installed on this machine)",
            "the parser makes no system calls, so EINTR / short reads / file-vs-pipe do not apply; 'partly consumed stream' is a StringReader positioned after a prefix or after earlier values",
            "Python binding: texts decoded as latin-1, NaN/Infinity refused via parse_constant; json.loads is trusted as the independent RFC 8259 reader",
        ],
        engine="E-ENUM",
        technique="exhaustive enumeration of byte strings, grammar derivations, truncations, single-edit mutants, byte-value fillings, boundary-size documents, call histories, calling contexts and "
                  "value streams through all parse entry points in both modes on the real parser under ASan, against RFC 8259 / documented-extension reference recognisers bound to Python json",
        level_text="Every byte string over the stated alphabet up to the length bound, every derivation of the JSON grammar up to the token bound (with every truncation and delimiter/junk suffix), "
                   "every extension rewrite, every single-byte edit of the corpus, every byte value in every syntactic position of the templates, and every boundary-size document is parsed by the "
                   "code compiled from the repository through all three entry points (explicit and defaulted mode argument, readers at an offset and over a window) in default and strict mode, from "
                   "exact-size unterminated heap buffers under AddressSanitizer; every numeral of the digit-shape x exponent grid (digit strings of 1..5000 digits on either side of the point x "
                   "exponents 0..+-5000 x 4 digit fills x sign, alone and as list element / dictionary value) likewise, from "
                   "exact-size unterminated heap buffers under AddressSanitizer. Every ordered pair / A-B-A / triple of calls over the step set, every long repetition, every calling context and every "
                   "value stream inside the stated bounds is executed and each call compared with the memoryless reference. Totality (only documented exceptions, no out-of-bounds read), standard "
                   "conformance with reference values, strict-mode rejection of each documented extension, trailing-data rejection and reader extent are decided for each call. Within the bounds this "
                   "is a coverage statement, not a sample.",
        level_note="Trusted: the reference recognisers R_std/R_ext in harness/C04_jsonref.hh (R_std is bound to Python json.loads on every text of the text families, count in "
                   "traces_validated_against_impl); AddressSanitizer for bounds. Not covered: texts longer than the length bound that are not grammar-generated, template fillings, boundary documents, number-grid numerals or "
                   "single edits of the corpus; numerals with digit fills other than the four listed or digit counts / exponents between the ladder steps; values are compared to relative 1e-9, not "
                   "to the last bit; histories longer than the stated bounds; termination is observed per case with a 120-300 s stall watchdog, not proved.",
    )
