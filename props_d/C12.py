import hashlib
import os
import subprocess

from props import P

_HERE = os.path.dirname(os.path.dirname(os.path.abspath(__file__)))


def _compiles(tag, headers, code):
    """Feature test: does `code` compile against the tree under test?  (LRUMap::insert(const&) is an
    ill-formed template on the pinned tree; a function body cannot be probed with SFINAE, so the
    probe is a real -fsyntax-only compile, cached by the content of the headers involved.)"""
    try:
        repo = os.environ.get("VERIF_REPO", "/repo")
        src = os.path.join(repo, "src")
        h = hashlib.sha256(code.encode())
        for name in headers:
            with open(os.path.join(src, name), "rb") as f:
                h.update(f.read())
        cache_dir = os.path.join(_HERE, "build", "scratch", "C12")
        cache = os.path.join(cache_dir, "probe-%s-%s.txt" % (tag, h.hexdigest()[:24]))
        if os.path.exists(cache):
            with open(cache) as f:
                return f.read().strip() == "1"
        p = subprocess.run(["g++", "-std=c++20", "-fsyntax-only", "-I" + src, "-x", "c++", "-"], input=code.encode(),
                           stdout=subprocess.DEVNULL, stderr=subprocess.DEVNULL, timeout=120)
        if p.returncode not in (0, 1):
            return False
        os.makedirs(cache_dir, exist_ok=True)
        tmp = cache + ".tmp%d" % os.getpid()
        with open(tmp, "w") as f:
            f.write("1" if p.returncode == 0 else "0")
        os.replace(tmp, cache)
        return p.returncode == 0
    except Exception:
        return False


_INSERT_CONSTREF = _compiles(
    "insert-constref", ["LRUMap.hh"],
    '#include "LRUMap.hh"\n'
    "bool probe() { phosg::LRUMap<int, int> m; const int k = 1, v = 2; return m.insert(k, v, 1); }\n")

_AT_CONST = _compiles(
    "at-const", ["LRUMap.hh"],
    '#include "LRUMap.hh"\n'
    "int probe(const phosg::LRUMap<int, int>& m) { return m.at(1); }\n")

CFG = P(
    harness=["harness/C12.cc", "harness/C12_types.cc", "harness/C12_big.cc"], harness_deps=["harness/bfs.hh", "harness/C12_core.hh"],
    srcs=[],
    harness_cxxflags=["-fno-access-control"] + (["-DC12_HAVE_INSERT_CONSTREF"] if _INSERT_CONSTREF else []) + (["-DC12_HAVE_AT_CONST"] if _AT_CONST else []),
    deadline={"quick": 1800, "thorough": 5400},
    # ~10^9 small allocations in the un-merged runs: short allocation stacks and a small quarantine keep
    # ASan's allocator out of the profile (every misuse here is immediate, so detection is unaffected)
    asan_options="malloc_context_size=3:quarantine_size_mb=16:thread_local_quarantine_size_kb=64",
    rule="a transition (BFS) or sequence (un-merged run) is non-trivial when the container operated on holds at least two entries at that point, i.e. when recency order decides the outcome",
    bounds={
        "quick": "fixpoints of the merged search: LRUSet<int> (two instances with swap, 3 keys, sizes {0,1,2}: 226^2 list pairs), LRUMap<int,int> (M1: one instance, sizes {0,1,2}, values {10,11}; M2: two instances with swap, sizes {1,2}); typed scopes, each two heap instances with swap (X of a derived class, destroyed through the base pointer), 79^2 list pairs, with aliased key arguments: LRUSet<std::string>, LRUSet<one-bucket key>, LRUMap<std::string,std::string>, LRUMap<one-bucket key,unique_ptr<int>> (plus one-instance two-value scopes of the two maps); boundary sizes: LRUSet<int> and LRUMap<int,int>, one instance, sizes {0,1,2^31-1,2^31,2^32-1,2^32,2^63-1,2^63,SIZE_MAX-1,SIZE_MAX} (9812 states each); un-merged: all LRUSet sequences of length <= 4 (full one-instance alphabet) and <= 6 (12 letters incl. swap), all LRUMap sequences of length <= 3 (full), <= 4 (30..34 letters) and <= 6 (13 letters incl. swap), typed one-instance alphabets to length 3, boundary-size alphabets ({0,2^63,SIZE_MAX}, {1,2^32,2^63-1,SIZE_MAX-1}) to length 3, and the medium / reduced alphabets to length 3 / 4 in four context plans (catch handler, destructor during unwinding, alternating main thread / fresh thread in both phases)",
        "thorough": "the same fixpoints (LRUSet<std::string> with sizes {0,1,2}: 226^2 pairs); un-merged: all LRUSet sequences of length <= 4 (full one-instance alphabet), <= 5 (33 letters) and <= 7 (12 letters incl. swap), all LRUMap sequences of length <= 3 (full), <= 5 (30..34 letters) and <= 7 (13 letters incl. swap), typed set alphabets to length 4 (maps 3), boundary-size alphabets to length 3..4, context plans to length 4 (medium) / 5 (reduced with swap)",
    },
    explanation="E-BFS: states are operation histories replayed on fresh LRUSet/LRUMap objects, identified by the lists read through the real head/next links plus total_size; the finite abstract space of every scope (int keys; std::string keys and values; keys that all hash into one bucket; move-only values; 64-bit boundary sizes) is searched to a fixpoint; the reference is a recency list whose refresh rules are the documented ones; un-merged sequence runs validate the merging and repeat the histories in other execution contexts",
    assumptions=[
        "3 keys per scope, at most two instances; sizes {0,1,2} / {1,2} / {0,2} or the ten 64-bit boundary sizes, map values {10,11}; the statement's random 400-operation histories over up to 8 keys are replaced by the fixpoint of the 3-key space (every reachable pair of lists)",
        "which operations refresh recency is taken from the headers: set insert/emplace on an existing key and touch; map at (const and non-const), insert on an existing key, change_size(touch=true), touch; map emplace on an existing key changes nothing; LRUSet::change_size never refreshes; default sizes: LRUSet 0, LRUMap 1",
        "exception class demanded: std::out_of_range for evict_object/peek on an empty container and for at/item_size on a missing key, in every execution context",
        "operations are applied to instance X; instance Y only takes part through swap (both call directions and self-swap)",
        "don't care: size() / total_size once the mathematical sum of the entries' sizes has exceeded SIZE_MAX (until clear()): order, each entry's size, count, results and links are still compared; the size an entry ends up with after touch(k, n) with a negative n other than the default -1 (refresh, result and structure are compared); the state of key/value arguments after a call (moved-from or not)",
        "don't care: iterator invalidation, throwing key/value types, the implicitly generated copy constructor / copy assignment of the containers (not an operation of the statement; they copy the raw head/tail pointers)",
        "LRUMap::insert(const&, const&, size) and LRUMap::at() const were ill-formed on the originally pinned tree: each is executed only when the tree under test makes it compile (it does on the current tree)",
    ],
    engine="E-BFS",
    technique="explicit-state breadth-first search to fixpoint over real LRUSet/LRUMap objects (histories replayed on fresh objects, white-box canonical form and link invariant) against a reference recency list, every state drained and destroyed under ASan/LSan; un-merged exhaustive operation sequences validate the state merging",
    level_text="Every pair of recency lists reachable over 3 keys x 3 sizes (x 2 values) by insert, emplace, erase, touch, lookup, change_size, evict, peek, clear and swap is built on the real containers - with int keys, std::string keys and values, keys that all collide in one hash bucket, move-only values, heap objects of a derived class, key arguments that alias the stored key, and sizes at every 32/63/64-bit boundary; in each, every operation's result, the list order read through the real links, size/count/peek/empty, the link invariant and a final drain are compared with a reference recency list. Each space is finite and searched to a fixpoint; all operation sequences up to length 3-7 are additionally run un-merged, also from catch handlers, unwinding destructors and alternating threads.",
    level_note="Trusted: the reference list and its refresh rules (copied from the headers); merging relies on the canonical form, which is validated by the un-merged runs (state hidden from the canonical form is only seen to the un-merged depth). Small key/size/value sets; size() is not compared once the sum of sizes has overflowed.",
)
