from props import P

CFG = P(
        harness=["harness/C18.cc"], srcs=["Time.cc", "Strings.cc", "Filesystem.cc", "Process.cc", "Encoding.cc"],
        oracle="C18",
        rule="a case is non-trivial when it is a distinct (microseconds, precision), timestamp, (size, include_bytes), size text or timeval on which the real function is executed and its text/value is evaluated by the harness",
        bounds={"quick": "format_duration: every microsecond within +-3000us of 0/1s/60s/3600s/86400s plus every 997th microsecond of the +-2s windows, carry windows and extremes x precision -1..6; format_time: 3 instants of every day 1970..9999 and every second of 4 days; format_size/parse_size and timeval sets complete",
                "thorough": "format_duration: every microsecond of [0,2s] and of the +-2s windows around 1s/60s/3600s/86400s, carry windows and extremes x precision -1..6 (144M calls); other sections as quick; timeval on the full windows"},
        explanation="E-ENUM over the real functions; format_duration text is parsed by the harness and evaluated back in exact integer arithmetic; format_time is compared with day-by-day and closed-form calendar arithmetic which oracles/C18.py binds to Python datetime; format_size text evaluated and parse_size compared in 128-bit integers",
        assumptions=[
            "format_duration precision -1 (default): the number of printed fraction digits is whatever the library chooses for the magnitude; the value is compared at that printed precision",
            "format_duration: a seconds field of 60 produced by rounding (e.g. 1:60) is accepted: the statement asks for two-digit inner fields and evaluate-back, not for carry normalisation",
            "format_time: timestamps 1970-01-01 .. 9999-12-31 UTC only; the format_time sections set TZ=VFT-05:30 (UTC+5:30) in their own process so that a local-time conversion is visible",
            "format_size/parse_size: tolerance 0.005 unit + 2^-23 size + 1 byte (two printed decimals, float mantissa); a printed value of 16.00 EB (2^64) is not representable in size_t and its round trip is not compared",
            "timeval_to_usecs for microsecond counts >= 2^63 (tv_sec*1000000 outside the signed range) is executed but not compared; only normalised timevals (0 <= tv_usec < 10^6, tv_sec >= 0) are generated",
        ],
        engine="E-ENUM",
        technique="exhaustive enumeration of microsecond windows x precisions, of all calendar days, and of size/unit boundary sets on the real functions with evaluate-back oracles",
        level_text="Every microsecond around each magnitude boundary of format_duration times every precision, every calendar day of the 4-digit-year range for format_time, and every size/unit boundary for format_size/parse_size are executed on the real code; outputs are parsed and evaluated back exactly, and the calendar reference is bound to Python's datetime on a subset.",
        level_note="Trusted: the harness's text parsers and 128-bit arithmetic; Python datetime as the independent calendar. Durations between the windows are covered only by the every-997th-microsecond sweep and the extremes.",
        deadline={"quick": 600, "thorough": 3600},
    )
