from props import P

CFG = P(
        harness=["harness/C04.cc"], harness_deps=["harness/C04_jsonref.hh"],
        srcs=["JSON.cc", "Strings.cc", "Filesystem.cc", "Process.cc", "Time.cc", "Encoding.cc"],
        oracle="C04", flags=[],
        deadline={"quick": 900, "thorough": 5400},
        rule="a case is one JSON value tree (built through the public API) crossed with every enumerated SerializeOption set; every case is non-trivial: "
             "it is serialised, parsed back in default mode (and in strict mode / by the RFC 8259 reference when the options are standard), re-serialised, copied and the copy mutated. "
             "Values are distinct by construction (atoms, unranked trees, byte strings and floats are enumerated without repetition).",
        bounds={
            "quick": "atoms: 98 atoms, [atom], {key: atom} for 21 keys (<=2 nodes); trees: all 5 533 trees with 3..4 nodes (nesting <=3, lists <=3, dicts <=2, 7 leaf representatives, 3 keys); "
                     "strings: every byte string of length 0..2 as value and as key (length <=1 x 64 option sets, length 2 x the 16 sets over the four bits that can affect a string); "
                     "floats: 9 mantissas x 10^e, e in [-300, 300], both signs (10 818 floats); deep: 18 chains nested 200 deep; all x 64 SerializeOption sets x {default, strict where standard}",
            "thorough": "as quick, with trees up to 6 nodes and the two-byte strings crossed with all 64 option sets",
        },
        explanation="E-ENUM over value trees; per (value, option set): parse(serialize) structural identity with int/float kind (floats rel. 1e-5), JSON::operator== on float-free values, "
                    "sorted re-serialisation fixed point, strict-mode acceptance and RFC 8259 reference (R_std, harness/C04_jsonref.hh) agreement for standard option sets, R_ext agreement for "
                    "HEX_INTEGERS/ONE_CHARACTER_TRIVIAL_CONSTANTS text, deep-copy checks; every distinct standard text is replayed through Python json.loads by oracles/C04.py",
        assumptions=[
            "floats are finite normal doubles (NaN, infinities, denormals are don't-care and not generated); compared to relative 1e-5 = the six significant digits %g keeps",
            "dictionary keys are unique (duplicates cannot be built through the API); dictionary order is never compared positionally (SORT_DICT_KEYS or key lookup)",
            "serialize() is called with indent_level 0 only",
            "text produced with HEX_ESCAPE_CODES or ESCAPE_CONTROLS_ONLY is only required to round-trip through the default parser (the header calls both non-standard); "
            "it is not shown to strict mode, R_std, R_ext or Python",
            "quick tier: the 65 536 two-byte strings are crossed with 16 option sets (HEX_INTEGERS / ONE_CHARACTER_TRIVIAL_CONSTANTS cannot change how a string or key is rendered); thorough uses all 64",
            "trees above 2 nodes use one representative per atom class (null, true, 255, 1.5, 1e-7, \"a\", \"\\x80\\n\\\"\") and keys {\"a\", \"\", \"\\xe9\\n\"}; the full atom set is crossed at <= 2 nodes",
            "Python binding: texts are decoded as latin-1 (one byte = one code point), NaN/Infinity are refused via parse_constant; json.loads is trusted as the independent RFC 8259 reader",
        ],
        engine="E-ENUM",
        technique="exhaustive enumeration of bounded JSON value trees x all 64 serialisation option sets x parser modes on the real serialize/parse/copy code, against a structural reference value and an RFC 8259 reference parser bound to Python json",
        level_text="Every value tree inside the stated bounds (all atoms, all small trees, every 0/1/2-byte string as value and key, a float sweep across the whole normal exponent range in both %g forms, "
                   "200-deep chains) is serialised with every one of the 64 option combinations by the code compiled from the repository and parsed back by it; identity, kind preservation, "
                   "re-serialisation fixed point, strict-mode acceptance, RFC 8259 conformance of standard-option text and deep-copy independence are decided for each. Within the bounds this is a "
                   "coverage statement, not a sample.",
        level_note="Trusted: the harness's structural comparison and its RFC 8259 reference (bound to Python json.loads on every distinct standard text of the run, count in traces_validated_against_impl); "
                   "glibc strtod/printf %g for constructing and classifying floats. Not covered: values outside the bounds (larger trees with the full atom set, strings longer than 2 bytes beyond the atom list), indent_level != 0, non-normal floats.",
    )
