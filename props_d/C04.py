from props import P

CFG = P(
        variants={
            "preempt": dict(pairs_text="16 JSON::serialize calls (4 values x 4 option sets) and 4 serialize->parse->compare round trips", harness=["harness/C04_preempt.cc"], harness_deps_extra=["harness/preempt_pure.hh", "engine/preempt.hh"], src_cxxflags={"JSON.cc": ["-fsanitize-coverage=trace-pc"]}, first=True, tiers=["quick", "thorough"], no_tls=["JSON.cc"]),
        },
        harness=["harness/C04.cc"], harness_deps=["harness/C04_jsonref.hh", "harness/C04_r2.hh", "harness/C04_r3.hh"],
        srcs=["JSON.cc", "Strings.cc", "Filesystem.cc", "Process.cc", "Time.cc", "Encoding.cc"],
        oracle="C04", flags=[],
        deadline={"quick": 900, "thorough": 5400},
        rule="a case is one JSON value tree (built through the public API) crossed with every enumerated SerializeOption set (sections assign/compare/ctors/history/context/ops: one (dst, src) pair or triple, one value against all others, "
             "one constructed value, one call history, one call in all contexts, one mutation history; section rejected: one history of throwing calls and round trips); every case is non-trivial: "
             "it is serialised, parsed back in default mode (and in strict mode / by the RFC 8259 reference when the options are standard), re-serialised, copied and the copy mutated. "
             "Values are distinct by construction (atoms, unranked trees, byte strings and floats are enumerated without repetition).",
        bounds={
            "quick": "atoms: 98 atoms, [atom], {key: atom} for 21 keys (<=2 nodes); trees: all 5 533 trees with 3..4 nodes (nesting <=3, lists <=3, dicts <=2, 7 leaf representatives, 3 keys); "
                     "strings: every byte string of length 0..2 as value and as key (length <=1 x 64 option sets, length 2 x the 16 sets over the four bits that can affect a string); "
                     "floats: 9 mantissas x 10^e, e in [-300, 300], both signs (10 818 floats) plus 10^e (e in [-307, 308]) and 2^e (e in [-1022, 1023]) with both neighbouring doubles, both signs; deep: 18 chains nested 200 deep; "
                     "all x 64 SerializeOption sets x {default, strict where standard}; atoms/trees/ints/deep additionally through parse(const char*, size) on an exact-size block and parse(StringReader&) on a partly consumed reader. "
                     "Round 2: strings: + every 3-byte string over a 20-byte boundary alphabet as [s, s] and {s: s}, escape_string() directly on every string of length <= 2; "
                     "ints: 481 boundary int64 (2^k-1, 2^k, 2^k+1, 10^k-1, 10^k, 10^k+1, both signs) alone / in a list / as key+value; "
                     "assign: pool of 44 small trees, all 1 936 ordered (dst, src) pairs x {copy-assign over dst built fresh/parsed/assigned, move-assign, move-construct, swap, assignment into <=3 child positions}, self-assignment, member copies, all ordered triples of a 31-value sub-pool; "
                     "compare: operator==/!= on all 819 025 ordered pairs of 905 values (pool, strings with embedded NUL, boundary ints, doubles 2^k-1/2^k/2^k+1) and against nullptr, bool, 11 integral types, double, float, std::string, const char*, list_type, dict_type; "
                     "ctors: every constructor overload (16 integral instantiations at their 2^k boundaries, 4 string overloads x 281 strings, enum, vector<T> x 16, unordered_map<string,T> x 9) and 3 construction routes + accessor shorthands on all trees <= 4 nodes; "
                     "history: 14 values x all 4 096 ordered option-set pairs, every ordered pair of 154 serialize/parse calls as A;B;A, every ordered triple of a 28-call sub-alphabet, two-generation round trip under all (o1, o2); "
                     "context: the same calls in a catch handler, during unwinding, inside the handler of the library's own parse_error, under 6 errno values; "
                     "ops: every sequence of 1..3 of 30 mutating operations from 6 initial states against a std::vector/std::unordered_map model, final state round-trips and equals its copies; "
                     "wide: strings of 15..65 536 bytes, lists of 255..65 537 entries, dictionaries of 255..4 096 keys, resize to 65 537 and back, indent_level 1..4096 x 64 option sets. "
                     "Round 3: rejected: 153 rejected texts (every place the parser gives up: inside a string / key / escape / number, after a colon, between elements, mid-comment, mid-literal, nesting depth 1..3 and 300, "
                     "trailing data, empty input, strict-only rejections) x {default, strict} x 3 entry points + 8 throwing accessor calls = 926 throwing steps; 396 round-trip steps (22 values x 4 option sets x {default, strict where standard} x 3 entry points); "
                     "every ordered pair (throwing step, round-trip step) as RT; THROW; RT inside the handler (every second pair also in a destructor during unwinding); RT; every ordered pair of rejected texts followed by one of 8 round trips; "
                     "every throwing step 2, 3 and 64 times in a row followed by a round trip; every history ends with the round trip of a probe value",
            "thorough": "as quick, with trees up to 6 nodes, the two-byte strings crossed with all 64 option sets, 4-byte strings over the boundary alphabet, assignment triples over the whole pool, mutation histories of length 4, "
                        "a 1 MiB string, a 1 000 000-entry list and a 16 385-key dictionary; rejected: round-trip steps under all 64 option sets (4 488 steps), pairs of rejected texts with all six (mode, entry point) variants of the second",
        },
        explanation="E-ENUM over value trees; per (value, option set): parse(serialize) structural identity with int/float kind (floats rel. 1e-5), JSON::operator== on float-free values, "
                    "sorted re-serialisation fixed point, strict-mode acceptance and RFC 8259 reference (R_std, harness/C04_jsonref.hh) agreement for standard option sets, R_ext agreement for "
                    "HEX_INTEGERS/ONE_CHARACTER_TRIVIAL_CONSTANTS text, deep-copy checks; every distinct standard text is replayed through Python json.loads by oracles/C04.py. "
                    "Round 2 (harness/C04_r2.hh): assignment over non-fresh destinations for all ordered pairs/triples, structural equality relation on all pairs and against native types, all constructor overloads and construction routes, "
                    "two- and three-call histories and calling contexts (results must equal the isolated call), mutation histories against a container model, boundary integers/floats and far-from-usual sizes, three parse entry points. "
                    "Round 3 (harness/C04_r3.hh): histories in which a call throws (rejected parses in both modes through the three entry points, throwing accessors) around round-trip steps; each round-trip step is judged by the memoryless "
                    "oracle (parse accepts, structural identity with kinds, sorted re-serialisation fixed point, serialize text unchanged)",
        assumptions=[
            "floats are finite normal doubles (NaN, infinities, denormals are don't-care and not generated); compared to relative 1e-5 = the six significant digits %g keeps",
            "dictionary keys are unique (duplicates cannot be built through the API); dictionary order is never compared positionally (SORT_DICT_KEYS or key lookup)",
            "serialize() with indent_level != 0 (section wide) is only required to parse back to the same value; its layout is not compared",
            "equality: two values are equal iff same kind and same content, integers and floats compared numerically (JSON.hh: int and float are implicitly convertible); int/float pairs whose integer exceeds 2^53 "
            "(2^24 against a float operand) are executed, not compared; ordering operators (<, <=, >, >=) are executed, never compared (not part of the statement)",
            "copy assignment: the source may be the destination itself (a = a must leave a unchanged); assignment from a sub-tree of the destination (a = a.at(k)) is executed in a child process and only counted "
            "(JSON.hh is silent on it) - see counters dontcare_assign_from_own_subtree_*",
            "mutating members are modelled as JSON.hh documents them ('behave like the corresponding functions on std::vector or std::unordered_map', type_error on the wrong kind); front()/back() on an empty list are not called",
            "JSON(uint64 above INT64_MAX): only what was stored must round-trip; the two initializer_list dictionary constructors are declared but not defined in JSON.cc and cannot be linked - not exercised",
            "float sweep: doubles whose six-digit decimal rounding is below DBL_MIN (2^-1022 and its neighbours) are skipped - the rounded value is a denormal",
            "call histories: 'in isolation' means the first execution of the call on freshly built objects in the same process; ambient errno is re-poisoned before every call",
            "section rejected: what a throwing step itself does (whether the text is refused, which exception) is not compared - rejection of non-JSON text is property C05's domain - only counted "
            "(counters throwing_steps_that_threw_on_this_tree, rejected_texts_refused_by_strict_parse(string)); JSON::serialize has no reachable throw, so there are no throwing serialize steps; "
            "a StringReader on which parse() threw is not used again",
            "text produced with HEX_ESCAPE_CODES or ESCAPE_CONTROLS_ONLY is only required to round-trip through the default parser (the header calls both non-standard); "
            "it is not shown to strict mode, R_std, R_ext or Python",
            "quick tier: the 65 536 two-byte strings are crossed with 16 option sets (HEX_INTEGERS / ONE_CHARACTER_TRIVIAL_CONSTANTS cannot change how a string or key is rendered); thorough uses all 64",
            "trees above 2 nodes use one representative per atom class (null, true, 255, 1.5, 1e-7, \"a\", \"\\x80\\n\\\"\") and keys {\"a\", \"\", \"\\xe9\\n\"}; the full atom set is crossed at <= 2 nodes",
            "Python binding: texts are decoded as latin-1 (one byte = one code point), NaN/Infinity are refused via parse_constant; json.loads is trusted as the independent RFC 8259 reader",
        ],
        engine="E-ENUM",
        technique="exhaustive enumeration of bounded JSON value trees x all 64 serialisation option sets x parser modes on the real serialize/parse/copy code, against a structural reference value and an RFC 8259 reference parser bound to Python json",
        level_text="Every value tree inside the stated bounds (all atoms, all small trees, every 0/1/2-byte string as value and key, a float sweep across the whole normal exponent range in both %g forms, "
                   "200-deep chains) is serialised with every one of the 64 option combinations by the code compiled from the repository and parsed back by it; identity, kind preservation, "
                   "re-serialisation fixed point, strict-mode acceptance, RFC 8259 conformance of standard-option text and deep-copy independence are decided for each. Within the bounds this is a "
                   "coverage statement, not a sample.",
        level_note="Trusted: the harness's structural comparison and its RFC 8259 reference (bound to Python json.loads on every distinct standard text of the run, count in traces_validated_against_impl); "
                   "glibc strtod/printf %g for constructing and classifying floats. Not covered: values outside the bounds (larger trees with the full atom set, strings longer than 2 bytes beyond the atom list), indent_level != 0, non-normal floats.",
    )
