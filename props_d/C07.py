from props import P

CFG = P(
        harness=["harness/C07.cc"], srcs=["Image.cc", "Strings.cc", "Filesystem.cc", "Process.cc", "Time.cc", "Encoding.cc"],
        oracle=None,
        flags=[], cxxflags=[], ldflags=[], harness_cxxflags=["-O2"],
        deadline={"quick": 600, "thorough": 3600},
        rule="a rectangle/blit case is non-trivial when a non-empty rectangle is requested (extent > 0 on both axes, or negative = whole source) on non-empty dest and source canvases - "
             "whether clipping then leaves all, part or nothing of it; pixel-access, line, clipping-invariance, transform and history cases are all non-trivial except transforms of empty canvases",
        bounds={
            "quick": "pixel access: canvases 0..3^2 x alpha x 4 widths x 9^2 coordinates x 6 forms; fill_rect: every canvas 0..4^2, x,y in [-3,n+3], w,h in [-1,n+4], 4 colours; "
                     "8 blit variants: dest/source sizes {0,1,3}^4 (blit) or {1,3}^4 (others), full product of x,y,sx,sy in [-2,n+2], w,h in [-1,max+2] (rgba->rgba); 10 variants x 4 alpha-mode combinations and "
                     "wide channels on a reduced grid; +-2^31 substituted into 1 and 2 parameters; clipping invariance of fill_rect/blit/draw_text on canvases {0,1,5,8}^2; every "
                     "endpoint pair in [-3,n+3]^4 on canvases {0,1,2,3,5}^2 and every axis line; transforms on canvases 0..4^2; all histories of <=2 of 20 operations",
            "thorough": "as quick with: fill_rect on every canvas 0..8^2; blit sizes {0,1,2,3}^4 x {rgba->rgba, rgb->rgb} with 9 mask-size combinations; sizes 4..8 swept one axis at a time; "
                        "clipping invariance on {0,1,2,5,8,13}^2; lines on every canvas 0..6^2; histories of <=3 operations",
        },
        explanation="E-ENUM over the real Image methods on exact-size heap buffers under ASan; reference model = per-pixel canvas with a declaratively computed affected set "
                    "(no incremental clipping code), colour rules transcribed per variant; histories are replayed from a fresh image (state = history) and compared after every step",
        assumptions=[
            "per-pixel colour rules (blend formulas, colour-key and mask tests, alpha skip in blit, dash pattern, invert touching alpha) are the library's own behaviour as written in Image.hh/Image.cc comments and statements; "
            "what is checked for all arguments is the geometry (which pixels may change), exception behaviour and memory safety",
            "colour rules are compared for 8-bit channels only; for 16/32/64-bit canvases blits are checked for geometry, exceptions and memory safety (the blend arithmetic is only meaningful for 8-bit)",
            "don't-care, executed but not judged: source aliasing the destination, negative dash lengths, axis lines given with start > end, the value of alpha written by translucent fills into wide channels, resize_blit (excluded: no law stated, documented to throw)",
            "mask_blit with a mask image: runtime_error is accepted whenever the mask is smaller than the requested extent or does not cover the copied area; out_of_range is never accepted",
            "a line that is partly outside the canvas is only bounded from above (it may draw a subset of its ideal segment, including nothing)",
            "coordinates up to +-2^31 are substituted one and two parameters at a time, not in all six positions simultaneously; larger magnitudes (near 2^63) are not explored",
        ],
        engine="E-ENUM + E-BFS",
        technique="exhaustive enumeration of canvas sizes x all rectangle parameters (full six-parameter product per blit variant) against a declarative per-pixel model, all line endpoint pairs, and all short operation histories replayed on the real Image class",
        level_text="For every canvas size in the small scope and every combination of position, extent and source offset in [-2, size+2] (full product, every blit variant, plus fill_rect on "
                   "every canvas up to 8x8), the real operation is executed under ASan on exact-size buffers and the whole pixel buffer is compared with a per-pixel model whose affected set is "
                   "defined declaratively; pixels outside the clipped rectangle must be bit-identical, no out_of_range may escape, the source must be untouched. Extreme coordinates (+-2^31), "
                   "clipping invariance (draw on an enlarged canvas and crop), every line endpoint pair on canvases up to 6x6, transform identities, deep copies and all operation histories up to "
                   "depth 2/3 over a 20-letter alphabet are enumerated completely. Within these bounds the verdict is a coverage statement, not a sample.",
        level_note="Trusted: the transcription of the per-variant colour rules (library-defined, see assumptions), std::function, libstdc++. Not covered: canvases larger than the stated sizes except through "
                   "clipping invariance (up to 13x13 plus margins), simultaneous extreme values in more than two parameters, coordinates near 2^63, resize_blit.",
    )
