from props import P

CFG = P(
        variants={
            "preempt": dict(pairs_text="15 canvas operations (fill_rect, blit, mask_blit, blend_blit, draw_line, draw_text, transforms, assignment) and PPM/BMP/PNG save->load round trips, each on its own Image objects", harness=["harness/C07_preempt.cc"], harness_deps_extra=["harness/preempt_pure.hh", "engine/preempt.hh"], src_cxxflags={"Image.cc": ["-fsanitize-coverage=trace-pc"]}, first=True, tiers=["quick", "thorough"], no_tls=["Image.cc"]),
        },
        harness=["harness/C07.cc", "harness/C07_r2.cc", "harness/C07_r3.cc"], harness_deps=["harness/C07_model.hh", "harness/C07_ops.hh"], srcs=["Image.cc", "Strings.cc", "Filesystem.cc", "Process.cc", "Time.cc", "Encoding.cc"],
        oracle=None,
        flags=[], cxxflags=[], ldflags=[], harness_cxxflags=["-O2"],
        deadline={"quick": 2400, "thorough": 7200},
        rule="a rectangle/blit case is non-trivial when a non-empty rectangle is requested (extent > 0 on both axes, or negative = whole source) on non-empty dest and source canvases - "
             "whether clipping then leaves all, part or nothing of it; pixel-access, line, clipping-invariance, transform, history, call-pair and context cases are all non-trivial except transforms / "
             "assignments of empty canvases and draw_text of the empty string",
        bounds={
            "quick": "pixel access: canvases 0..3^2 x alpha x 4 widths x 20^2 coordinates (edge, +-2^31, +-2^32 and their neighbours, 2^32+n-1, +-2^63) x 6 forms; fill_rect: every canvas 0..4^2, x,y in [-3,n+3], "
                     "w,h in [-1,n+4], 6 colours incl. the uint32 overload, opaque on 16/32/64-bit; 8 blit variants: dest/source sizes {0,1,3}^4 (blit) or {1,3}^4 (others), full product of x,y,sx,sy in [-2,n+2], "
                     "w,h in [-1,max+2] (rgba->rgba); 13 variants (uint32 keys, source_alpha 0x00/0x40/0xC0/0xFF) x 4 alpha-mode combinations, wide channels and all 12 mixed dest/source widths on a reduced grid; "
                     "12 extreme values (+-2^31, +-2^32 and neighbours, +-2^61) substituted into 1 and 2 parameters of every blit variant, fill_rect (3 forms), the line functions (3 forms) and draw_text (6 forms); "
                     "clipping invariance of fill_rect/blit/draw_text on canvases {0,1,5,8}^2; every endpoint pair in [-3,n+3]^4 on canvases {0,1,2,3,5}^2 and every axis line; uint32/default-alpha line overloads "
                     "on canvases 1..3^2 x alpha x 4 widths with dash up to 2^63-1; draw_text per-pixel model: 3 canvases x alpha x 6 call forms x 3 backgrounds x all strings of <=2 of 9 characters x 24 positions; "
                     "transforms on canvases 0..4^2; all histories of <=2 of 20 operations; 130 object states: every ordered (destination, source) pair x 6 assignment forms, 8 unary forms; all shape-changing "
                     "histories of <=3 of 20 operations from 24 start shapes; 92 boundary calls: every ordered pair A;B and triple A;B;A, every call in 3 exception contexts; resize_blit (memory safety, rectangle bound); "
                     "BitmapImage: pixel access, whole-image operations, write_row, copies between 25 states; "
                     "LARGE canvases (round 3): 462 canvases whose row byte length is next to t in {b-1,b,b+1,b+3,2b-1,2b+1} for b in {256,4096,8192,65536} (the widths whose row is the last <= t and the first >= t; "
                     "rgb 8-bit, rgba 8-bit, rgb 16-bit, rgba 32-bit, rgba 64-bit) x heights {1,2,3,5}, whose total size straddles 64 KiB and 1 MiB (height 7), and widths {1,3} x heights {255,256,257,4095,4097}, "
                     "coordinate-coded content, x 51 operations (every whole-image operation, assignments and copies, fill_rect x6, 8 blit variants row for row + 4 from a larger source at an offset + interior columns, "
                     "7 lines, corner pixel access, draw_text at three edges); draw_text of strings of {255,256,257,1023,1024,1025,4095,4096,4097} bytes; "
                     "BitmapImage with row byte length next to {256,4096,65536} and their doubles x heights {1,2,3} x 10 operations",
            "thorough": "as quick with: fill_rect on every canvas 0..8^2; blit sizes {0,1,2,3}^4 x {rgba->rgba, rgb->rgb} with 9 mask-size combinations; sizes 4..8 swept one axis at a time; "
                        "clipping invariance on {0,1,2,5,8,13}^2; lines on every canvas 0..6^2; line overloads on canvases 1..4^2; text: 6 canvases, 64 positions, all 16 form/background combinations, strings of 3 "
                        "characters on a reduced grid; histories of <=3 operations; shape histories of <=4 operations; 202 object states (dims 0..4); "
                        "large canvases: all 8 formats, row boundaries {256,1024,4096,8192,16384,32768,65536}, total-size canvases of heights 7 and 64, 10 blit variants with both calls (60 operations), "
                        "text strings up to 65537 bytes; large bitmaps for row boundaries {256,1024,4096,8192,65536}",
        },
        explanation="E-ENUM over the real Image/BitmapImage methods on exact-size heap buffers under ASan; reference model = per-pixel canvas with a declaratively computed affected set "
                    "(no incremental clipping code), colour rules transcribed per variant, text layout transcribed from draw_text_v with the library's glyph table; histories are replayed from a fresh image "
                    "(state = history) and compared after every step; call pairs/triples judge every call on its own fresh object so that only state carried between calls can make them differ",
        assumptions=[
            "per-pixel colour rules (blend formulas, colour-key and mask tests, alpha skip in blit, dash pattern, invert touching alpha, text cell layout 6x8 with a 6x9 background box and a closing column) are the library's own "
            "behaviour as written in Image.hh/Image.cc comments and statements; what is checked for all arguments is the geometry (which pixels may change), exception behaviour and memory safety",
            "colour rules are compared for 8-bit channels only; for 16/32/64-bit canvases blits and translucent fills/text backgrounds are checked for geometry, exceptions and memory safety (the blend arithmetic is only meaningful for 8-bit); "
            "opaque fills, opaque text, lines, pixel access and all transforms are compared exactly at every width",
            "don't-care, executed but not judged: source aliasing the destination, negative dash lengths, axis lines given with start > end, the value of alpha written by translucent fills into wide channels, "
            "the width/height values reported by draw_text, operator==/!=, set_channel_width with an invalid width (must throw or return; the image must stay usable), the colours and exceptions of resize_blit "
            "(no law stated; only memory safety, source untouched and no pixel outside the requested rectangle changed)",
            "mask_blit with a mask image: runtime_error is accepted whenever the mask is smaller than the requested extent or does not cover the copied area; out_of_range is never accepted",
            "a line that is partly outside the canvas is only bounded from above (it may draw a subset of its ideal segment, including nothing); what it draws must have the line colour",
            "a moved-from image (and the target of a self-move-assignment) has an unspecified value; it must describe its own buffer (dims, data size, max_value consistent), be drawable, assignable and destructible",
            "self-copy-assignment must keep the value (a copy equals its source); this fires on the pinned tree for Image and BitmapImage: proposed_fixes/C07-r2-1.diff, C07-r2-2.diff",
            "extreme coordinates are substituted one and two parameters at a time, not in all six positions simultaneously; magnitudes above 2^61 (where the library's own sums would overflow) are used only for direct pixel access; "
            "axis lines that start inside a dash gap longer than 65536 pixels are not executed",
            "large canvases (round 3): on 16/32/64-bit canvases the colour-key, mask-image and custom_blit(uint64) variants are compared exactly (their rule is a plain copy / caller-supplied function at equal "
            "channel widths); blit, blend_blit and custom_blit(uint32) stay geometry-only there as everywhere else",
            "BitmapImage (the monochrome canvas declared in Image.hh) is held to the same clauses: out_of_range outside, invert twice is the identity, copies are deep; padding bits of a row are not compared",
        ],
        engine="E-ENUM + E-BFS",
        technique="exhaustive enumeration of canvas sizes x all rectangle parameters (full six-parameter product per blit variant) against a declarative per-pixel model, all line endpoint pairs, a per-pixel text model, "
                  "all ordered pairs of object states for assignment, all short operation histories (including shape-changing ones) and all ordered pairs/triples of boundary calls on the real Image class",
        level_text="For every canvas size in the small scope and every combination of position, extent and source offset in [-2, size+2] (full product, every blit variant, plus fill_rect on "
                   "every canvas up to 8x8), the real operation is executed under ASan on exact-size buffers and the whole pixel buffer is compared with a per-pixel model whose affected set is "
                   "defined declaratively; pixels outside the clipped rectangle must be bit-identical, no out_of_range may escape, the source must be untouched. Extreme coordinates (+-2^31, +-2^32, +-2^61), "
                   "clipping invariance (draw on an enlarged canvas and crop), every line endpoint pair on canvases up to 6x6, every overload (uint32 colours, default alpha, width/height out-pointers), text against a "
                   "per-pixel model, transform identities, assignment between every ordered pair of object states (non-fresh destinations, self-assignment, moved-from objects), all operation histories up to "
                   "depth 2/3 over a 20-letter alphabet and shape-changing histories up to depth 3/4, and every ordered pair and A;B;A triple of 92 boundary calls (state carried between calls) are enumerated "
                   "completely. Every whole-image operation and representatives of every other operation are also run on canvases whose row / total byte length straddles 256 B ... 64 KiB / 1 MiB "
                   "(coordinate-coded content, per-pixel model). Within these bounds the verdict is a coverage statement, not a sample.",
        level_note="Trusted: the transcription of the per-variant colour rules and of the text layout (library-defined, see assumptions), the library's glyph table, std::function, libstdc++. Not covered: the full rectangle-parameter product on canvases larger than the "
                   "stated sizes (large canvases get a fixed list of representative calls; clipping invariance up to 13x13 plus margins), rows longer than 150 KB and canvases above 1 MiB, simultaneous extreme values in more than two parameters, coordinates above 2^61 for rectangle operations, "
                   "file loading/saving (other properties), the interpolation result of resize_blit.",
    )
