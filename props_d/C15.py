from props import P

CFG = P(
    harness=["harness/C15.cc"],
    srcs=["Process.cc", "Filesystem.cc", "Strings.cc", "Time.cc", "Encoding.cc"],
    aux={"vchild": "harness/C15_child.c"},
    ldflags=["-Wl,--wrap=waitpid,--wrap=poll,--wrap=read,--wrap=write,--wrap=kill,--wrap=gettimeofday,--wrap=fork,--wrap=pipe,--wrap=close"],
    engine="E-PROC",
    sanitizer="none",  # every execution forks; forking an ASan process costs ~13 ms (shadow page tables) against ~0.3 ms without
    deadline={"quick": 900, "thorough": 7200},
    rule="one case = one scenario (API, payload size, child script, check flag, timeout); inside it every sequence of run-ahead decisions (at each parent waitpid/poll/read/write the scripted child runs 0,1,2 or all of its remaining steps first) with at most the stated number of non-default decisions is executed against the real Process.cc with a real forked child; every scenario is non-trivial (>= 2 schedules)",
    bounds={
        "quick": "48 scenarios (payloads 0..1 MiB, 12 child behaviours, exit codes/signals, timeout, communicate with and without deadline), run-ahead deviation bound 1 for large payloads, 2 otherwise, 3 for the shortest scripts",
        "thorough": "same scenarios plus more write-then-read payloads, deviation bound one higher",
    },
    explanation="E-PROC: the parent's system calls are interposed at link time; the child is a scripted helper driven over inherited control pipes so child timing is a choice of the explorer; blocking calls are emulated so that 'parent and child both blocked' is reported as a deadlock; virtual time; oracle = child-acknowledged bytes per stream, wait status, payload hash, reaping, /proc/self/fd",
    assumptions=[
        "SIGPIPE is ignored in the calling process (a library cannot avoid the signal on pipes); EPIPE handling is checked",
        "the child is the scripted helper; grandchildren holding the pipes, descriptors >= 1024 and real-time behaviour are not covered (time is virtual and advances only when the parent sleeps in poll with a timeout while the child cannot move)",
        "child steps are atomic at the granularity of one read()/write() of at most 64 KiB",
        "this harness is built without AddressSanitizer (fork cost); memory safety of Process.cc is not an oracle here",
    ],
    technique="deviation-bounded exhaustive enumeration of parent/child schedules on the real code (scripted child process, link-time interposed system calls, virtual time)",
    level_text="For each scenario every schedule in which the child runs ahead of the parent at up to 1-3 of the parent's system calls (and otherwise only when the parent would sleep) is executed on the real run_process/communicate with a real child; completeness of stdout/stderr, payload delivery, wait status, check/timeout behaviour, reaping, descriptor leaks and deadlock (both sides blocked) are decided on every execution.",
    level_note="Trusted: the interposition layer and the helper child; schedules beyond the deviation bound and child behaviours outside the 12 scripts are not explored.",
)
