from props import P

CFG = P(
        harness=["harness/C17.cc", "harness/C17_hist.cc", "harness/C17_more.cc"], harness_deps=["harness/C17_common.hh"],
        srcs=["Arguments.cc", "Strings.cc", "Filesystem.cc", "Process.cc", "Time.cc", "Encoding.cc"],
        harness_cxxflags=["-fno-access-control"],
        rule="a case is non-trivial when it is a distinct token list, command line, (numeral text, IntFormat), float text or (argument set, getter subset) on which the real Arguments object is built and read; every case decides at least one accept/reject or used/unused verdict",
        bounds={"quick": "all token lists <=5 over 13 tokens; all n in [-70000,70000] x 5 renderings x 4 formats x six 8/16/32-bit targets; boundary numerals and garbage x eight targets; 17316 float literals + garbage; 99 argument sets x all 16384 getter subsets; quoted/escaped command lines of <=3 tokens",
                "thorough": "same as quick (the space is enumerated completely in both tiers)"},
        explanation="E-ENUM on the real Arguments class; oracle = a reference classifier and a reference numeral grammar written from the statement, std::from_chars for floating-point values, a used-set model for assert_none_unused",
        assumptions=[
            "tokens '-' and '--' alone are positional, '--=v' is the option with the empty name, '-5' is the flag '5' (library convention; the statement's three classes leave no other reading for tokens without a name or flag letter)",
            "IntFormat::DEFAULT follows the C literal convention (0x.. hexadecimal, 0.. octal, otherwise decimal); IntFormat::HEX accepts an optional 0x prefix",
            "don't-care inputs (executed, not compared): leading blanks, an explicit '+' sign on an otherwise complete numeral (a value is compared only if it is accepted), 64-bit targets with |n| >= 2^63, hexadecimal floats, inf/nan spellings, literals outside the double range (float target: outside the float range), single-value getters applied to a repeated option, get<bool> on a repeated option, command lines with empty quoted arguments / unterminated quotes / dangling backslash, backslashes inside single quotes",
            "for 64-bit targets a numeral n with |n| < 2^63 must be returned as n modulo 2^64 (so -1 read as uint64_t is 2^64-1), per the statement's 64-bit clause",
            "get_multi on an absent option may return an empty vector or throw out_of_range",
            "the private containers are read (-fno-access-control) only to check that nothing besides what the getters show was stored",
        ],
        engine="E-ENUM",
        technique="exhaustive enumeration of token lists, numeral texts x formats x target types, float literals and getter subsets on the real Arguments class against reference grammars",
        level_text="Every token list up to five tokens over a 13-token grammar, every integer text in [-70000,70000] in five renderings under every IntFormat for every 8/16/32-bit target, boundary and garbage numerals for all eight targets, 17k float literals and every subset of fourteen getters before assert_none_unused are executed on the real class and compared with reference models written from the property statement.",
        level_note="Trusted: the reference classifier/numeral grammar in the harness, libstdc++ std::from_chars for float values. Token lists longer than 5 and numerals outside the enumerated sets are not covered.",
        deadline={"quick": 600, "thorough": 3600},
    )
