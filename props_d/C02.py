from props import P

CFG = P(
        harness=["harness/C02.cc"],
        harness_deps=["harness/C01_kinds.hh", "harness/C02_batch.hh", "harness/C02_cursor.hh", "harness/C02_writers.hh"],
        harness_cxxflags=["-fno-access-control"],
        srcs=["Strings.cc", "Filesystem.cc", "Process.cc", "Time.cc", "Encoding.cc"],
        rule="a case is one row of calls sharing their setup (accessor, n, placement, offset with every size of the grid; one state or history prefix with every operation); each call is counted as an evaluation, judged on its own against the integer model, and is non-trivial because its (offset, size, n) triple decides between slice / clamped slice / out_of_range; rows are pairwise distinct (odometer enumeration)",
        bounds={
            "quick": "readers over n in {0,1,2,5,8} bytes in two placements: every positional accessor x G(n) x G(n); reader state space (where, size) explored to the fixpoint under 100-131 cursor operations per state; un-merged cursor histories of length <= 2; BufferWriter capacity {0,1,4,8} x 3 placements x G(c), append histories of length <= 4; StringWriter::pput_* at boundary offsets including 2^63-1..2^64-1",
            "thorough": "as quick, with un-merged cursor histories of length <= 3 and BufferWriter append histories of length <= 5",
        },
        explanation="every call runs on the real StringReader/BufferWriter/StringWriter inside a forked batch child over exact-size heap blocks (ASan) or buffers ending at a PROT_NONE page, so a fatal access is attributed to the call that made it; the oracle is in(off,size) := off <= n and size <= n-off over 128-bit integers: throwing forms return exactly the slice or throw std::out_of_range, clamping forms return the in-range prefix and never throw, sub-readers stay inside the parent, reads never leave the cursor beyond the end",
        assumptions=[
            "skip() is held to the cursor invariant only; truncate() and go() are state-changing letters, not reads",
            "after an explicit go() past the end (or truncate() below the cursor) the 'cursor <= size' invariant is waived, bounds checking of the following reads is not",
            "caller-supplied buffers of the (void*, size) forms hold exactly `size` bytes, or n bytes when size > n (a clamping read can never legitimately copy more than the data holds); skip_if patterns hold exactly `size` bytes and size <= n+1",
            "StringWriter offsets between size+3 and 2^63-1 are not exercised (they would legitimately try to allocate exabytes, which ASan reports as a fatal allocation failure); offsets >= 2^63-1 exceed std::string::max_size(), so 'cannot grow' is an immediate exception",
            "BitReader is not held to this property (it has no bounds checks to be wrong); sub_bits/subx_bits are judged on the extent of the BitReader they return",
            "the exception thrown by a rejected BufferWriter/StringWriter write may be of any std::exception type; rejected reads must throw std::out_of_range as the statement says",
        ],
        engine="E-ENUM + E-BFS",
        technique="bounded exhaustive enumeration of (offset, size) boundary grids and explicit-state search over reader cursor states on the real code, under AddressSanitizer with guard-paged buffers",
        level_text="Every positional accessor is called with every (offset, size) pair of a boundary grid that contains all pairs whose sum wraps to a value inside the buffer; the complete (where, size) state space of small readers is explored to the fixpoint under every cursor operation; fixed and growable writers are driven at every boundary offset. Within these bounds the verdict is a coverage statement, not a sample.",
        level_note="Trusted: the 128-bit integer model in harness/C02*.hh/.cc, AddressSanitizer and the PROT_NONE guard page as the memory-safety oracle; buffer lengths limited to {0,1,2,5,8}.",
        deadline={"quick": 600, "thorough": 3600},
    )
