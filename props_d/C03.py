from props import P

CFG = P(
        harness=["harness/C03.cc", "harness/C03_optypes.cc", "harness/C03_bswap.cc"], harness_deps=["harness/C03_common.hh"], srcs=[],
        rule="a case is one (wrapper type, operator, operand, stored value) tuple or one (helper function, input) pair; all tuples are distinct by construction (odometer enumeration, no duplicates); a case is non-trivial when the native operator's result is defined and was compared (pairs whose native result is undefined - signed overflow, division by zero, INT_MIN/-1 - are executed-not-compared and not counted)",
        bounds={
            "quick": "16-bit wrappers: all 65536 values x 17 operators x operand set; operand-type matrix (every compound operator x operand types int/unsigned/int64/uint64/uint8/uint16/int8/int16 and float/double for the float wrappers x boundary operand values x boundary stored values, all 24 wrapper types); 32-bit: L9^4+walking+all-distinct; 64-bit: L5^8+walking+all-distinct for ctor/=/store, 755-value lane set for binary operators; float/double lane sets bit-exact; bswap16 all, bswap24/24s/ext24 all 2^24, bswap32/32f lane set, bswap48/48s/ext48 L5^6, bswap64/64f L5^8, sign_extend all 8/16-bit sources",
            "thorough": "quick bounds plus: all 2^32 bit patterns x {ctor/load/raw bytes,++x,x++,--x,x--} x 6 32-bit wrapper types (le/be x u32/s32/float); all 2^32 inputs of bswap32/bswap32f/bswap<>/sign_extend<64,32>; 64-bit binary operators on the full L5^8 set",
        },
        explanation="E-ENUM over the real header templates; oracle = the same C++ operator applied to a native variable (stored value and value of the expression), raw object bytes vs an independent encoder (compiler byte-swap intrinsic), bswap helpers vs a byte-lane loop, sign extension vs arithmetic definition",
        assumptions=[
            "operator/operand pairs whose native result is undefined behaviour (signed overflow in the promoted type, division by zero, INT_MIN / -1, shift count >= width, ++ at INT_MAX for 32/64-bit signed) are not compared",
            "a NaN produced by float arithmetic is compared as 'is NaN' only; NaNs that are merely stored and loaded are compared bit-exact; float operands are never NaN",
            "ext24/ext48 are only defined on values below 2^24 / 2^48 (the narrower value); bswap24/48 ignore bits above the low N bits (EncodingTest documents bswap24(0x01234567) == 0x674523)",
            "64-bit and 48-bit values outside the lane / walking-bit / all-distinct sets are not enumerated (the lane set is complete for byte-permutation and top-bit logic)",
            "sign_extend<R,S> is checked for R strictly wider than S (same-width instantiations shift by the full width)",
            "re_* wrappers are big-endian on this little-endian host",
        ],
        engine="E-ENUM",
        technique="exhaustive enumeration of (wrapper type, operator, operand, stored value) against the native operator and an independent byte encoder; exhaustive / lane-complete enumeration of the bswap and sign-extension helpers against a byte-lane reference",
        level_text="Every 16-bit stored value x every operator x the operand set (and all 2^32 bit patterns for the value-only operators in the thorough tier) is executed on the real converted_endian templates placed misaligned between canary bytes; stored value, value of the expression and raw bytes are compared with the native operator and an independent encoder. bswap16/24/24s/ext24 are checked on every input, bswap32/32f on every input in the thorough tier, the 48/64-bit helpers on a byte-lane-complete set.",
        level_note="Trusted: the C++ native operators and __builtin_bswap as oracle; 48/64-bit coverage is lane-complete, not value-complete.",
        deadline={"quick": 600, "thorough": 3600},
    )
