from props import P

CFG = P(
        harness=["harness/C10.cc", "harness/C10_r2.cc", "harness/C10_r3.cc"], harness_deps=["harness/C10_common.hh"],
        srcs=["Hash.cc", "Strings.cc", "Filesystem.cc", "Process.cc", "Time.cc", "Encoding.cc"],
        ldflags=["-lcrypto"],
        oracle="C10",
        variants={
            "preempt": dict(harness=["harness/C10_preempt.cc"], src_cxxflags={"Hash.cc": ["-fsanitize-coverage=trace-pc"]}, harness_deps_extra=["engine/preempt.hh"], no_tls=["Hash.cc"], first=True, tiers=["quick", "thorough"]),
        },
        rule="a case is one (function, length, fill pattern) triple, one (function, input, split point[s], overload combination set) tuple, one call HISTORY (2-3 calls, or a whole sweep over all "
             "lengths, executed inside the case), one (function, overload, storage, content sequence) tuple, one (seed with its prefix witness, overload, suffix) tuple, one (function, overload, "
             "input, context) tuple, one (digest algorithm, digest VALUE) pair (the value written into the public state words of an object; its renderings and those of the values reached by complementing one word "
             "after the other are judged inside the case) or one (function, overload, length, background octet, position, octet value) tuple; tuples are distinct by construction; every case is non-trivial (the library result(s) and the independent reference are computed and compared) except the "
             "fnv1a64 calls with a seed for which no prefix is known (executed, not compared, not counted as non-trivial)",
        bounds={
            "quick": "lengths: MD5, SHA-1, SHA-256, crc32, fnv1a32, fnv1a64 on every length 0..300 x 6 fills (00, FF, counter, LCG, all-high-bit, ASCII), every overload (ptr+size, std::string, implicit "
                     "conversion, explicit/defaulted start), state words + bin() + hex(), copy, re-rendering; boundaries: 15 sizes up to 2^20+1 x 6 fills; big16m: 2^24+{55,56,63,64} x 2 fills; "
                     "huge: 2^29+56 bytes; chain: every split point of every input of length 0..96 x 6 fills x every overload combination; chain3: every pair of split points, length 0..20, and "
                     "read loops with empty reads, length 0..130 x 10 chunk sizes; pairs: f(A),f(B),f(A) for every ordered pair of 192 shapes (lengths 64*{0,1,2}+16 residues x 4 fills) x overload "
                     "combinations; cross: f(A),g(B),f(A) for all 30 ordered function pairs x 96^2 shape pairs; triples: 16^3 shape triples per function, 8^3 length triples per digest mix; sweeps: "
                     "all lengths 0..300 in one case in 4 orders; storage: same buffer / same std::string with replaced content, digest objects constructed into / assigned over prior states; "
                     "misaligned: pointer offsets 1..15, 7 representations of the empty string; seeds: 120 boundary seeds (crc32 99, fnv1a32 15, fnv1a64 6) each witnessed by a prefix; context: fresh thread, catch handler, "
                     "destructor during unwinding, nested, histories spread over 3 threads; renderings: bin()/hex() of MD5/SHA1/SHA256 objects whose state words are set to digest VALUES: all octets equal "
                     "(256), one octet / one word different at every position over a 26-octet lane alphabet (NUL, controls, tab/LF/CR, blank, quotes, backslash, digit and hex-letter range ends, "
                     "7E, 7F, 80, 9F, A0, FF), every word at 2^k-1, 2^k, 2^k+1, every nibble value at every nibble position, octet classes (all printable, all white space, all hex digits, all "
                     "control, all high, counting) at every phase, one class per word in every assignment, two octets different at every position pair, printable-or-not per octet (all 2^16 for "
                     "MD5), each as a history on one persistent object (value, then one more word complemented per step down to the complement, value again) plus fresh object / const reference / copy; 8 inputs whose real MD5 and 1 whose real SHA-1 digest is "
                     "all-printable; content: every octet value 0..255 at the first / middle / last position of inputs of 8 lengths x backgrounds {00, FF}, every function and overload; "
                     "concurrent_same / concurrent_cross / concurrent_three (variant 'preempt'): 2 concurrent calls of the same function (6 functions x 4 overload pairs x 4 input-shape pairs: 3/5, 55/56, 70/5, 70/130 bytes), "
                     "of every ordered pair of different functions, and 3 concurrent calls of the same function: EVERY schedule with <= 2 preemptions (MD5/SHA1/SHA256 pointer overload, one-block inputs) or <= 1 preemption "
                     "(all other configurations) at basic-block granularity and every completion order, each call's words/bin()/hex() compared with the reference of ITS input",
            "thorough": "as quick with lengths 0..4096, chain 0..300 and 1025, chain3 0..40 / read loops 0..300, pairs/cross/storage over all 64 residues (768 / 384 shapes), triples over 36 shapes, "
                        "sweeps 0..1024, misaligned also lengths 258..520, big16m 9 sizes, huge sizes {2^29-1, 2^29, 2^29+8, 2^29+56, 2^32-1, 2^32, 2^32+56}; renderings also with every octet value 0..255 against the lane alphabet (both ways round) at every position, 4 "
                        "classes per word for SHA256, printable-or-not per octet for SHA1 (all 2^20); content over 29 lengths x 4 backgrounds x EVERY position x every octet value, and every 2-octet string; concurrent_*: as quick with <= 2 preemptions also for the 55/56-byte and multi-block/one-block input pairs, the std::string overloads, the integer hashes, the same input in both jobs, all cross pairs and the three-job configurations",
        },
        explanation="E-ENUM over the real Hash.cc; oracle = OpenSSL EVP digests and zlib crc32 linked into the harness (counted in traces_validated_against_impl), FNV-1a by the published recurrence; "
                    "a Python stage re-derives the references of the lengths/boundaries/big16m sections with hashlib/zlib on independently regenerated inputs. Call histories run inside one case "
                    "(replayable alone); results are judged when produced and digest objects are rendered again after the history.",
        assumptions=[
            "inputs are six deterministic fill patterns (00, FF, counter, LCG seeded by the length, all-high-bit, printable ASCII) and, above 2^24+64 bytes, a 2 MiB LCG pattern mapped repeatedly; "
            "'random inputs up to 1 MiB' of the quantifier is covered by the LCG pattern at the block-boundary sizes, not by sampling",
            "hex() is compared case-insensitively (the library prints upper case; the case actually seen is counted in the evidence counters) and must consist of exactly 2n hexadecimal digits",
            "bin()/hex() are judged as functions of the public state words (MD5: a0..d0, each low-order octet first, RFC 1321 3.5; SHA-1/SHA-256: h[i] big-endian, FIPS 180-4): an object whose "
            "words were written directly with the encoding of a digest value V is in the state every input with digest V would leave it in (the other sections verify words == reference digest "
            "for every computed digest), so bin() must be V and hex() its hex digits; most of the enumerated values are not known to be the digest of any input",
            "a seed is compared only when the harness holds a prefix whose reference hash IS that seed (crc32: the unique 4-byte prefix of any 32-bit value, computed by running the register "
            "backwards and verified with zlib; fnv1a32: 5-byte prefixes found by meet-in-the-middle; fnv1a64: the published zero-hash string and what follows from it); fnv1a64 boundary seeds "
            "without a known prefix (1, 2^32-1, 2^32, 2^63-1, 2^63, 2^64-2, 2^64-1) are executed but not compared",
            "(nullptr, 0) is treated as a representation of the empty byte string, with and without a seed (the repository's own HashTest passes nullptr with size 0 to every function)",
            "sizes near SIZE_MAX are not executed (reading that many bytes is undefined); the largest input is 2^32+56 bytes (thorough), 2^29+56 bytes (quick)",
            "environment classes that do not apply to pure in-memory functions (EINTR, short reads/writes, file vs pipe, partly consumed streams) are not enumerated; ambient errno is poisoned "
            "before every call",
            "concurrency (variant 'preempt', engine/preempt.hh): two or three calls run as fibers of one OS thread; src/Hash.cc alone is compiled with -fsanitize-coverage=trace-pc and every basic-block entry in it "
            "is a scheduling point, so interleavings are explored at basic-block granularity under sequentially consistent semantics; a read-modify-write inside one basic block, weak-memory effects and "
            "code outside Hash.cc (the StringWriter / string_printf renderings, libc) are atomic steps; Hash.cc uses no thread_local storage (fibers would share it)",
        ],
        engine="E-ENUM + E-PREEMPT",
        technique="preemption-bounded exhaustive exploration of concurrent calls (every schedule with <= 1-2 preemptions at basic-block granularity of the trace-pc-instrumented Hash.cc, fibers under a controlled scheduler) and exhaustive enumeration of message lengths across all padding cases, of all split points, of all ordered pairs/triples of calls over a boundary shape set (state carried between "
                  "calls), of storage/object prior states, boundary seeds and calling contexts, of structured digest values rendered through real objects and of octet values at input positions, compared with independent implementations (OpenSSL EVP, zlib, Python hashlib)",
        level_text="Every message length 0..300 (0..4096 thorough) with six fill patterns, block-boundary sizes up to 2^24+64 and one 2^29+56-byte input (2^32+56 thorough) are hashed by the real "
                   "MD5/SHA1/SHA256/crc32/fnv1a code through every overload and by OpenSSL/zlib/the published FNV recurrence; bin() and hex() renderings, every split point (and pair of split "
                   "points) for seed chaining, read loops with empty reads and boundary seeds with prefix witnesses are compared. Every ordered pair of calls over 192 boundary shapes (768 "
                   "thorough), triples, whole sweeps in four orders, reused storage with new content, reused digest objects, misaligned pointers and five calling contexts (threads, catch "
                   "handlers, unwinding) are enumerated so that state carried between calls shows. bin() and hex() are additionally judged on the digest VALUE space (about 190 000 structured "
                   "values in the quick tier: uniform, one-off, per-word, per-nibble, octet-class and printable/non-printable assignments) written into the objects' state words, and every octet "
                   "value is placed at the first/middle/last position of inputs around the padding boundaries. References are bound a second time to Python hashlib/zlib. Two and three concurrent calls are executed under every schedule with at most one or two preemptions at basic-block granularity (about 10^6 schedules in the quick tier) and each call must still return the digest of its own input.",
        level_note="Trusted: OpenSSL 3 EVP, zlib and Python hashlib as the standard algorithms. Content space is six patterns per length plus single-octet variations of two backgrounds, not all byte strings. The digest value space is covered by structured families, not all 2^128..2^256 values. Histories are bounded to three "
                   "calls (plus whole-sweep cases) over the boundary shape set. Concurrency is explored at basic-block granularity with a preemption bound of 2 (1 for the larger configurations), sequentially consistent, Hash.cc only.",
        deadline={"quick": 600, "thorough": 3600},
    )
