from props import P

CFG = P(
        harness=["harness/C10.cc", "harness/C10_r2.cc"], harness_deps=["harness/C10_common.hh"], srcs=["Hash.cc", "Strings.cc", "Filesystem.cc", "Process.cc", "Time.cc", "Encoding.cc"],
        ldflags=["-lcrypto"],
        oracle="C10",
        rule="a case is one (function, length, fill pattern) triple or one (function, input, split point) triple; triples are distinct by construction; every case is non-trivial (a full digest / checksum is computed by the library and by the independent implementation and compared)",
        bounds={
            "quick": "MD5, SHA-1, SHA-256, crc32, fnv1a32, fnv1a64 on every length 0..300 x 4 fill patterns and on 15 block-boundary sizes up to 2^20+1 x 4 patterns (state words, bin(), hex(), string overload); chaining of crc32/fnv1a32/fnv1a64 at every split point of every input of length 0..96 x 4 patterns",
            "thorough": "as quick with every length 0..4096, and chaining at every split point of every input of length 0..300 and of the 1025-byte inputs",
        },
        explanation="E-ENUM over the real Hash.cc; oracle = OpenSSL EVP digests and zlib crc32 linked into the harness (counted in traces_validated_against_impl), FNV-1a by the published recurrence; a Python stage re-derives every reference with hashlib/zlib on independently regenerated inputs",
        assumptions=[
            "inputs are the four deterministic fill patterns (00, FF, counter, LCG seeded by the length); 'random inputs up to 1 MiB' of the quantifier is covered by the LCG pattern at the block-boundary sizes, not by sampling",
            "hex() is compared case-insensitively (the library prints upper case)",
            "inputs larger than 2^20+1 bytes (in particular >= 2^29 bytes, where size<<3 exceeds 32 bits) are not executed",
        ],
        engine="E-ENUM",
        technique="exhaustive enumeration of message lengths across all padding cases and of all split points, compared with independent implementations (OpenSSL EVP, zlib, Python hashlib)",
        level_text="Every message length 0..300 (0..4096 thorough) with four fill patterns, plus block-boundary sizes up to 1 MiB, is hashed by the real MD5/SHA1/SHA256/crc32/fnv1a code and by OpenSSL/zlib/the published FNV recurrence; bin() and hex() renderings and every split point for seed chaining (inputs <= 96 bytes, <= 300 thorough) are compared. References are bound a second time to Python hashlib/zlib.",
        level_note="Trusted: OpenSSL 3 EVP, zlib and Python hashlib as the standard algorithms. Content space is four patterns per length, not all byte strings.",
        deadline={"quick": 600, "thorough": 3600},
    )
