from props import P

CFG = P(
        harness=["harness/C06.cc", "harness/C06_r5.cc"], harness_deps=["harness/C06_r2.hh", "harness/C06_r3.hh"], srcs=["Image.cc", "Strings.cc", "Filesystem.cc", "Process.cc", "Time.cc", "Encoding.cc"],
        oracle="C06",
        flags=[], cxxflags=[], ldflags=[],
        deadline={"quick": 3600, "thorough": 10800},
        rule="a save/load case is non-trivial when its pixel pattern is not constant (coordinate-coded, control bytes, high bit, header-like text), "
             "so a transposed, dropped or re-ordered sample is visible; every generated input variant and every truncated prefix is non-trivial "
             "(it drives the header parser and the row loops of its container); every call history (three calls in a fresh process), every ordered pair of object states "
             "and every overload/stream/context case is non-trivial (its images are coordinate-coded or byte-structured, and consecutive calls differ in size class, stride, alpha, width or container); "
             "the don't-care probes of section apis are not counted; a transient-fault case is non-trivial when its fault was actually answered (the callback index exists in that delivery) - "
             "indices beyond the last callback are listed as 'vacuous' in the outcome histogram, faults inside a netpbm text header as 'dont-care'",
        bounds={
            "quick": "save->load: dims {1..8}x{1..5} u {64x1,1x64,63x2,33x3,17x17} (all widths mod 4) x alpha x channel width {8,16,32,64} x 6 patterns x {PPM,BMP,PNG}, plus boundary dims "
                     "{255x1,256x1,257x2,1x257,2x256,65536x1,1x65537,300x211} x alpha x {8,16}-bit; every 8-bit output file decoded by the Python decoders; "
                     "320 container variants (180 core x 20 dims x 3 patterns; 140 extra - header whitespace forms, P7 line order, 22 MAXVAL boundary values x 4 containers, wide RGB, "
                     "pixel-array gaps, trailing bytes - x 6 dims x 2 patterns), each loaded through 11 deliveries (memory stream, 1- and 7-byte short reads, real file via "
                     "Image(FILE*) buffered/unbuffered, Image(const char*), Image(std::string), stdin, non-seekable stream, pipe, stdin pipe) and re-saved as PPM/BMP and loaded again; "
                     "every prefix of every file of 8 small dims (core variants; extra variants over 2 dims; phosg's own PPM/BMP output), each prefix also from a non-seekable short-read stream and from a "
                     "medium failing with EIO from the same offset on; call histories: every ordered pair (a,b) of 59 save/load calls run as a,b,a in a fresh process; object states: 15 states x 15 x "
                     "{copy-assign, move-assign, swap} + self-assignment/copy/move construction/set_channel_width/set_has_alpha per state; APIs: 9 images x 3 formats x 14 ways to save x contexts, "
                     "9 variants x 2 dims x 3 stream kinds x 5 contexts, raw-data constructors, 30 don't-care probes; "
                     "transient faults: every complete file of 4 small dims {1x1,2x2,3x2,5x3} (core variants; extra variants over 2 dims; phosg's own PPM/BMP output) delivered {1,3,7,64,4096} bytes per read callback "
                     "with exactly one callback - every index 0..N - answered -1/EINTR and -1/EAGAIN, BMP also from a stream that cannot seek (1 and 7 bytes per callback), and for the 3x2 core files every ordered pair of faulting callbacks with equal errno at 3 bytes per callback; write side: 6 images x 3 formats through save(FILE*) onto a "
                     "sink x {unbuffered, 16-byte buffer, default buffer} x every write callback index x the callback takes {nothing, one byte, half} x {EINTR, EAGAIN}",
            "thorough": "save->load: dims {1..64}x{1,2,3,5} u {1..8}x{1..64} u {17x17,33x47,63x61,64x64} x alpha x width x 6 patterns x 3 formats + 16 boundary dims up to 65537x2 and 1000x1000, all 8-bit files decoded "
                        "independently; 180 core variants x 221 dims x 3 patterns + 140 extra x 12 dims x 3 patterns, 11 deliveries + re-save each; every prefix of every file of 12 dims including 64x1, 63x2, 33x3, 13x9; "
                        "call histories: every ordered pair of the 59 calls followed by each of 12 observing calls (a, b, c); object states: every (dst, src1, src2) triple x 3 transfer kinds; APIs: full product of ways to save x contexts; "
                        "transient faults: single faults over the files of 12 dims (the truncation dims; non-seekable BMP delivery 1, 3, 7 and 64 bytes per callback), plus every ordered pair of faulting callbacks x errno pair for the 1x1 and 3x2 core files (3, 7, 64, 4096 bytes per callback); "
                        "write side: 10 images",
        },
        explanation="E-ENUM over the real Image::save/Image(FILE*) with exact-size heap copies under ASan; risky loads run in forked children so a heap overflow is a recorded "
                    "outcome, not the end of the shard; truncation = fault enumeration over every prefix length (memory stream, non-seekable stream, read error); transient faults = environment-answer enumeration over every "
                    "read (write) callback of an fopencookie stream answering -1/EINTR or -1/EAGAIN once (twice) and then carrying on, batches of files per forked child; call histories run in fresh forked "
                    "processes so that state carried between calls is reproducible; oracle = pattern regenerated independently + stdlib-only PNG/BMP/netpbm decoders in oracles/C06.py",
        assumptions=[
            "pixel contents are six structured patterns (zeros, all-ones, coordinate hash, the bytes 0A 0D 1A 00 FF, high bit, header-like text), not all 2^(8n) contents",
            "sample byte order of 16/32/64-bit netpbm files is not compared with external decoders (the statement limits external validity to 8-bit PPM); wide netpbm input passes with either byte order",
            "a netpbm MAXVAL is part of the pixels a file defines (it is the scale of every sample): load -> save must keep it; MAXVAL above 65535 selects 32/64-bit samples as phosg documents",
            "don't-care, executed but not judged: saving BMP/PNG from images with channels wider than 8 bits (documented refusal), 32-bit BI_RGB fourth byte, netpbm comments, CR as the single "
            "whitespace after MAXVAL, BI_BITFIELDS without an alpha mask (52-byte header), empty (0xN) images, the moved-from object, files with malformed (non-prefix) headers, unknown signatures, "
            "images embedded at a non-zero stream position, raw-data constructors on short files, channel_width defaulted to 0 in the raw-data constructors, values produced by set_channel_width/set_has_alpha "
            "(only that their result survives save -> load)",
            "truncation means a prefix of a valid file, delivered by a memory stream or a non-seekable stream, or a medium that fails with EIO from that offset on; arbitrary corrupted headers are outside the statement",
            "a transient read fault (one read callback of the stream answers -1 with EINTR or EAGAIN, later callbacks deliver normally from the same offset) is treated like the statement's truncation clause: the load "
            "must throw or decode exactly the complete file's picture. Judged only where binary data is being delivered (the whole BMP file, the netpbm raster); a fault answered while the netpbm text header is still being "
            "delivered is executed and recorded, not judged (how stdio's text functions tokenise around an error is outside the statement; HEAD then accepts some files with other dims or a shifted raster - see the notes)",
            "a transient write fault (one write callback takes fewer bytes than given and reports EINTR/EAGAIN) is judged only when save() returns normally AND the stream's error flag is clear AND fflush succeeds: "
            "then the sink must hold exactly the bytes of save(Format); an exception or a stream that reports the error is accepted",
            "a repeated save in one process may produce a different encoding as long as it is valid (recorded as an outcome class, never a violation by itself)",
            "zlib's inflate (through Python's zlib module) is trusted; the chunk CRC is computed by a table-driven implementation written in the oracle and cross-checked with zlib.crc32",
        ],
        engine="E-ENUM",
        technique="exhaustive enumeration of (dimensions, alpha, channel width, pattern, container variant, delivery), of every truncation point, of every transient read/write fault position, of call histories, object-state pairs and API overloads/contexts on the real codec, "
                  "with independent Python decoders and ASan/LSan as oracles",
        level_text="Every image of the dimension/alpha/width/pattern grid is saved by the real code as PPM, BMP and PNG, loaded back (PPM, BMP) and compared bit for bit; every 8-bit "
                   "output file is decoded by independent stdlib-only decoders (PNG chunk CRCs, zlib stream, IHDR fields, filters; BMP header fields, row order, padding; P6/P7 incl. MAXVAL) and compared "
                   "pixel by pixel with an independently regenerated pattern. Every supported input variant (P5/P6/P7 tuple types, header whitespace forms and line orders, MAXVAL boundaries, BMP 24/32 BI_RGB, BI_BITFIELDS "
                   "with all 24 byte-mask permutations, both row orders, 40/52/56/108/124-byte headers, pixel-array gaps) is generated by code that shares nothing with phosg, validated by the Python decoders, and loaded "
                   "under ASan through every loading overload and stream kind (memory, short reads, real files, pipes, stdin); every prefix length of every small file is loaded and must throw or decode identically with no "
                   "sanitizer report and a balanced heap; every complete small file is also delivered with exactly one read callback (every index, five delivery granularities, seekable or not) answering EINTR/EAGAIN "
                   "and must then throw or decode to exactly the full picture, and every save onto a sink whose write callback once takes only part of its bytes must fail visibly or leave exactly the right file. Every ordered pair (thorough: every pair followed by each of 12 observing calls) of 59 boundary save/load calls is executed as one call history in a fresh process, every ordered pair of 15 object states "
                   "is copy-assigned, move-assigned and swapped and the result saved, and every save overload/stream kind is exercised in a catch handler, during stack unwinding and under foreign errno values. "
                   "Within these bounds the result is a complete enumeration, not a sample.",
        level_note="Trusted: zlib inflate, glibc fmemopen/open_memstream/fopencookie, the six pixel patterns as representatives of 'all pixel contents'. Not covered: dimensions above 65537x2 / 1000x1000, "
                   "byte order of wide netpbm samples against third-party readers, corrupted (non-prefix) files, write errors that only show when the caller flushes or closes the stream, failing seeks, transient faults inside netpbm text headers (recorded, not judged), real signals on real pipes (modelled by the cookie stream).",
    )
