import hashlib
import os
import subprocess

from props import P

_HERE = os.path.dirname(os.path.dirname(os.path.abspath(__file__)))


def _compiles(tag, headers, code):
    """Feature test: does `code` compile against the tree under test?  (KDTree::emplace is an
    ill-formed template on the pinned tree; a function body cannot be probed with SFINAE, so the
    probe is a real -fsyntax-only compile, cached by the content of the headers involved.)"""
    try:
        repo = os.environ.get("VERIF_REPO", "/repo")
        src = os.path.join(repo, "src")
        h = hashlib.sha256(code.encode())
        for name in headers:
            with open(os.path.join(src, name), "rb") as f:
                h.update(f.read())
        cache_dir = os.path.join(_HERE, "build", "scratch", "C13")
        cache = os.path.join(cache_dir, "probe-%s-%s.txt" % (tag, h.hexdigest()[:24]))
        if os.path.exists(cache):
            with open(cache) as f:
                return f.read().strip() == "1"
        p = subprocess.run(["g++", "-std=c++20", "-fsyntax-only", "-I" + src, "-x", "c++", "-"], input=code.encode(),
                           stdout=subprocess.DEVNULL, stderr=subprocess.DEVNULL, timeout=120)
        if p.returncode not in (0, 1):
            return False
        os.makedirs(cache_dir, exist_ok=True)
        tmp = cache + ".tmp%d" % os.getpid()
        with open(tmp, "w") as f:
            f.write("1" if p.returncode == 0 else "0")
        os.replace(tmp, cache)
        return p.returncode == 0
    except Exception:
        return False


_EMPLACE = _compiles(
    "emplace", ["KDTree.hh", "KDTree-inl.hh", "Vector.hh", "Vector-inl.hh"],
    '#include "KDTree.hh"\n#include "Vector.hh"\n'
    "void probe() { phosg::KDTree<phosg::Vector2<int64_t>, int64_t> t; int64_t v = 0; t.emplace(phosg::Vector2<int64_t>(0, 0), v); }\n")

CFG = P(
    harness=["harness/C13.cc", "harness/C13_seq.cc", "harness/C13_seq2.cc", "harness/C13_misc.cc", "harness/C13_pairs1.cc", "harness/C13_pairs2.cc", "harness/C13_pairs3.cc",
             "harness/C13_pairs4.cc", "harness/C13_pairs5.cc", "harness/C13_pairs6.cc"],
    harness_deps=["harness/bfs.hh", "harness/C13_gen.hh", "harness/C13_seq.hh", "harness/C13_pairs.hh"],
    srcs=[],
    harness_cxxflags=["-fno-access-control"] + (["-DC13_HAVE_EMPLACE"] if _EMPLACE else []),
    deadline={"quick": 600, "thorough": 3600},
    # the search does ~10^8 small allocations: short allocation stacks and a small quarantine keep ASan's
    # allocator out of the profile (detection is unaffected: every misuse here is immediate)
    asan_options="malloc_context_size=3:quarantine_size_mb=16:thread_local_quarantine_size_kb=64",
    rule="a transition (one operation applied to one explored structure) is non-trivial when the structure it starts from holds at least two entries that share a coordinate on some axis (ties / duplicates: the cases where the split rule and deletion matter)",
    bounds={
        "quick": "fixpoint: every structure reachable with <= 5 (S1: 3x3 grid, value 0), <= 3 (S2: values {0,1}), <= 3 (S3: 2x2x2 Vector3 cube) live entries by any interleaving of insert, erase and erase_advance; per structure all grid points, all 256 (S3: 729) boxes, all 2^n erase-while-iterating subsets, destruction",
        "thorough": "fixpoint: every structure reachable with <= 7 (S1), <= 5 (S2), <= 5 (S3) live entries; per structure all grid points, all boxes, all 2^n erase-while-iterating subsets for n <= 6 (n = 7: none / each single / each pair / all), destruction",
    },
    explanation="E-BFS: states are operation histories replayed on a fresh real KDTree, identified by a white-box pre-order serialisation of the real nodes; the search closes over every structure reachable under the live-entry bound; the reference is a plain multiset with linear scans",
    assumptions=[
        "points come from a 3x3 integer grid (Vector2<int64_t>) or the 2x2x2 cube (Vector3<int64_t>), values from {0} or {0,1}; larger grids, other coordinate types and the statement's random 300-operation histories are not covered",
        "the closure is bounded by the number of live entries (quick 5/3/3, thorough 7/5/5), not by history length",
        "the ordering invariant named by the fields (`before` strictly smaller on `dim`, `after_or_equal` the rest) is treated as part of the contract and checked white-box; dim == depth % dimensions and parent links are checked in every state, which is what makes the canonical form lossless",
        "a structure that violates the ordering invariant is an error state: the violation is reported on the transition that produced it, the full oracle is evaluated in it, and it is not expanded further (prunes nothing on a tree without such violations)",
        "don't care: operator++ / erase_advance on an end iterator, iterators kept across an unrelated erase, depth(); at() on a point with several entries may return the value of any of them",
        "KDTree::emplace is ill-formed on the pinned tree (cannot be instantiated): it is executed only when the tree under test makes it compile",
        "a crash of ~KDTree on an empty tree is established once per process in a forked child and then reported for every later empty destruction without re-executing it",
    ],
    engine="E-BFS",
    technique="explicit-state breadth-first search over real KDTree objects (histories replayed on fresh objects, white-box canonical form, fixpoint under a live-entry bound) with a brute-force multiset oracle, structural invariant and destruction in every state under ASan/LSan",
    level_text="Every KD-tree structure reachable with at most N live entries from the 3x3 grid (and the 2x2x2 cube) by any interleaving of insert, erase and erase-while-iterating is built on the real code and, in each one, size, iteration, at/exists for every grid point, within/exists for every box, erase results, the ordering invariant and destruction are compared with a linear-scan multiset; inside that bound the verdict is exhaustive.",
    level_note="Trusted: the harness's multiset model and box membership test; the canonical form omits dim/parent, which is sound because both are verified in every state. Bounded by live entries (7/5/5 thorough), small grids, integer coordinates.",
)
