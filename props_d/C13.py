import hashlib
import os
import subprocess

from props import P

_HERE = os.path.dirname(os.path.dirname(os.path.abspath(__file__)))


def _compiles(tag, headers, code):
    """Feature test: does `code` compile against the tree under test?  (KDTree::emplace is an
    ill-formed template on the pinned tree; a function body cannot be probed with SFINAE, so the
    probe is a real -fsyntax-only compile, cached by the content of the headers involved.)"""
    try:
        repo = os.environ.get("VERIF_REPO", "/repo")
        src = os.path.join(repo, "src")
        h = hashlib.sha256(code.encode())
        for name in headers:
            with open(os.path.join(src, name), "rb") as f:
                h.update(f.read())
        cache_dir = os.path.join(_HERE, "build", "scratch", "C13")
        cache = os.path.join(cache_dir, "probe-%s-%s.txt" % (tag, h.hexdigest()[:24]))
        if os.path.exists(cache):
            with open(cache) as f:
                return f.read().strip() == "1"
        p = subprocess.run(["g++", "-std=c++20", "-fsyntax-only", "-I" + src, "-x", "c++", "-"], input=code.encode(),
                           stdout=subprocess.DEVNULL, stderr=subprocess.DEVNULL, timeout=120)
        if p.returncode not in (0, 1):
            return False
        os.makedirs(cache_dir, exist_ok=True)
        tmp = cache + ".tmp%d" % os.getpid()
        with open(tmp, "w") as f:
            f.write("1" if p.returncode == 0 else "0")
        os.replace(tmp, cache)
        return p.returncode == 0
    except Exception:
        return False


_EMPLACE = _compiles(
    "emplace", ["KDTree.hh", "KDTree-inl.hh", "Vector.hh", "Vector-inl.hh"],
    '#include "KDTree.hh"\n#include "Vector.hh"\n'
    "void probe() { phosg::KDTree<phosg::Vector2<int64_t>, int64_t> t; int64_t v = 0; t.emplace(phosg::Vector2<int64_t>(0, 0), v); }\n")

CFG = P(
    # the chain TUs come first: sections run in registration (= link) order and the thorough tier's few 10^5-entry chains built through
    # insert() take minutes each - started early they overlap with everything else
    harness=["harness/C13_chain.cc", "harness/C13_chain2.cc", "harness/C13_chain3.cc", "harness/C13.cc", "harness/C13_ext.cc", "harness/C13_seq.cc", "harness/C13_seq2.cc", "harness/C13_vals.cc", "harness/C13_misc.cc",
             "harness/C13_pairs1.cc", "harness/C13_pairs2.cc", "harness/C13_pairs3.cc", "harness/C13_pairs4.cc", "harness/C13_pairs5.cc", "harness/C13_pairs6.cc", "harness/C13_pairs7.cc"],
    harness_deps=["harness/bfs.hh", "harness/C13_explorer.hh", "harness/C13_gen.hh", "harness/C13_seq.hh", "harness/C13_pairs.hh", "harness/C13_chain.hh"],
    srcs=[],
    harness_cxxflags=["-fno-access-control"] + (["-DC13_HAVE_EMPLACE"] if _EMPLACE else []),
    # round 2: ~25 s / ~10 min of work on an idle 16-core box; the machine is usually shared (measured 250-530 s / 5200 s at load ~100)
    # round 5 adds ~250 CPU-s (quick) of chain / bushy life cycles; at load 150-260 (six agents) a quick run needed 1200 s of wall time
    deadline={"quick": 3600, "thorough": 10800},
    # the search does ~10^8 small allocations: short allocation stacks and a small quarantine keep ASan's
    # allocator out of the profile (detection is unaffected: every misuse here is immediate)
    asan_options="malloc_context_size=3:quarantine_size_mb=16:thread_local_quarantine_size_kb=64",
    rule="a transition of the E-BFS sections (one operation applied to one explored structure) is non-trivial when the structure it starts from holds at least two entries that share a coordinate on some axis "
         "(ties / duplicates: the cases where the split rule and deletion matter); a case of the enumerating sections (seq_*, pairs_*, iter, ctx, emplace, chain, chain_linked, bushy) is non-trivial when the tree under test holds at least two entries at some point of the case",
    bounds={
        "quick": "E-BFS fixpoints: every structure reachable with <= 5 (S1: 3x3 grid, value 0), <= 3 (S2: values {0,1}), <= 3 (S3: 2x2x2 Vector3 cube), <= 2 (S4: as S2 with all observers before and after every operation on the same object), "
                 "<= 4 (S5: S1's grid on {INT64_MIN,-1,INT64_MAX-1}), <= 3 (S6: S3's cube on {INT64_MIN,INT64_MAX-1}) live entries by any interleaving of insert, emplace, erase and erase_advance; per structure all grid points, all 256 (3-D: 729) boxes, "
                 "all 2^n erase-while-iterating subsets, destruction.  E-ENUM on ONE object without state merging: every sequence of <= 5 (2x2 grid, 1-D) / <= 4 (other worlds) operations over 13 operations (insert|emplace and erase of 4 entries, 5 erase-while-iterating "
                 "traversals) with the observers at the end (all points; the boxes with lo <= hi per axis plus one inverted interval per axis), and every sequence of 4 (3) operations with all observers and all boxes after every step, for 8 worlds (Vector2<int64_t> grid; one point with 3 values; Vector3; Vector4; Vector2<double>; 1-D; 40-byte string values; "
                 "instance-counting values).  Boundary coordinates: every ordered pair (a,b) of {2^k-1, 2^k, 2^k+1 (all k), negatives, 0, limits} (float/double: 36 values incl. +-0, denormal, 2^p+-, infinity) as the coordinates of a 4..6-point tree "
                 "in 2 insertion orders (int32, int64, uint64, 1-D int64: one order per pair, forward / reverse alternating) for Vector2 over int8..int64/uint8..uint64/float/double, 1-D, Vector3 and Vector4 (reduced k sets), all probes and boxes over {a,b}.  Iterator members on every tree of <= 4 inserts (+1 erase) from 5 entries; "
                 "7 calling contexts x every tree of <= 3 inserts; two live trees; 6 insertion forms (emplace argument shapes) in every sequence of <= 3 calls.  "
                 "SHAPE extremes (round 5), each case = the complete life cycle of one tree in a forked child (inserts, size, iteration in 2 styles, at/exists at the ends / quarters / middle of the insertion order and at absent points (n <= 1000: every entry), "
                 "within/exists on 13 boxes covering nothing / one entry / halves / a slab / everything / inverted, erase of absent entries, of the root, the deepest and a middle entry, erase_advance at the first / middle / last visit, an ending, destruction, live-value count): "
                 "chain = 9 insertion orders that degenerate the tree into a chain (increasing, decreasing, all-equal, zig-zag, increasing / decreasing on one axis and tied on the others, tied on one axis, anti-diagonal, every point twice) x 100, 1000, 10^4 entries x 9 coordinate worlds "
                 "(Vector2 over int64/double/float/int32/uint64, Vector3 over int64/double, Vector4<int64_t>, 1-D) x {main thread, thread with a 128 KiB stack, thread with a 64 KiB stack} (all three for Vector2/Vector3<int64_t> and 1-D, 64 KiB for the other six) x endings "
                 "{destroy full, erase every second entry, erase until empty + refill, erase_advance until empty} (n <= 1000) / {destroy full, 32 spread erases} (10^4); chain_linked = the same 9 families at 10^5 entries, the chain linked node by node by the harness "
                 "(verified equal to insert()'s structure at 7 / 100 / 1000 entries for every family and world), 4 worlds x 3 stack kinds; bushy = balanced median-first order of an s^D grid, 100 .. 10^5 entries, 9 worlds (10^5: three), all four endings",
        "thorough": "E-BFS fixpoints with <= 7 (S1), <= 5 (S2), <= 5 (S3), <= 3 (S4), <= 5 (S5), <= 4 (S6) live entries; all 2^n erase-while-iterating subsets for n <= 6 (n = 7: none / each single / each pair / all).  Sequences: <= 6 (2x2 grid, 1-D) / <= 5 operations with "
                    "observers at the end, 5 (4) with observers after every step.  Boundary pairs in 4 insertion orders (8-bit: every value of the type, 2 orders; Vector3<int64_t>, Vector4: 2 orders), all boxes in every sweep, Vector3<int64_t> over every k, Vector4 over 13 exponents.  Iterator members on trees of <= 5 inserts, contexts on trees of <= 4 inserts, insertion forms in sequences of <= 4 calls",
    },
    explanation="E-BFS: states are operation histories replayed on a fresh real KDTree, identified by a white-box pre-order serialisation of the real nodes; the search closes over every structure reachable under the live-entry bound; the reference is a plain multiset with linear scans.  "
                "E-ENUM (round 2): every operation sequence of bounded length on one object (no merging, so state that is not part of the node structure - caches, recycled nodes, memoised answers - is exercised), every ordered pair of boundary coordinates for every coordinate type and dimension, "
                "every iterator member at every position, every calling context; the reference is a plain list with linear scans written against the named members x, y, z, w.  "
                "Round 5: SHAPE extremes - every chain-producing insertion-order family x a size ladder x coordinate world x stack kind, the complete life cycle of the tree executed in a forked child on the main thread or on a thread with a 128 KiB / 64 KiB stack "
                "(a 10^4-level recursion needs 16 bytes per level = 160 KB: any per-level recursion or O(n) stack allocation in a named operation dies there and is reported as <operation>:crash); the reference is a plain list in an integer coordinate space "
                "mapped to the world's coordinate type by an exact strictly increasing map; leaks and double destruction are counted through an instance-counting value type",
    assumptions=[
        "E-BFS scopes: points come from a 3x3 integer grid (Vector2<int64_t>) or the 2x2x2 cube (Vector3<int64_t>), plain or mapped monotonically onto {INT64_MIN, -1, INT64_MAX-1}; values from {0} or {0,1}; the statement's random 300-operation histories on grids of side up to 12 are replaced by the exhaustive bounds above",
        "the closures are bounded by the number of live entries, not by history length; the sequence sections are bounded by history length (<= 6) on 4-entry alphabets",
        "the ordering invariant named by the fields (`before` strictly smaller on `dim`, `after_or_equal` the rest) is treated as part of the contract and checked white-box; dim == depth % dimensions and parent links are checked in every state, which is what makes the canonical form lossless",
        "a structure that violates the ordering invariant is an error state: the violation is reported on the transition that produced it, the full oracle is evaluated in it, and it is not expanded further (prunes nothing on a tree without such violations)",
        "don't care (never executed, they are use-after-free by construction): operator++ / erase_advance on an end iterator, an iterator used after erase(pt, v) or after erase_advance through another iterator.  Executed but not compared: depth(); iterating on from the iterator returned by insert/emplace.  "
        "at() on a point with several entries may return the value of any of them; no order of iteration or of within() results is demanded (multisets)",
        "iterator members: == means 'same position' (both at the end, or designating the same entry of one traversal), a copy advanced on its own repeats the rest of the traversal, it++ returns the old position - the forward-iterator meaning the class declares through iterator_category",
        "coordinates: no NaN (not ordered); -0.0 and 0.0 are the same coordinate; +-infinity are ordinary coordinates.  The 1-D world uses a minimal coordinate type of the harness (at, dimensions, ==) because phosg has no Vector1",
        "copy/move construction and assignment of KDTree are deleted on this tree, so there are no assignment histories; reuse of one object after it was emptied (by erase or by erase_advance) is covered by the sequence sections",
        "private helpers that no public member reaches (count_subtree, collect_into, the 4-argument Node constructor, find_subtree_min_max with find_max = true since delete_node always promotes a minimum) are outside the statement and not called",
        "calling contexts cover what a container without I/O can depend on (active exception, unwinding, other thread, second live tree, ambient errno owned by the engine); signals, short reads/writes and streams do not apply",
        "two threads never use a tree at the same time (hand-over through promise/future); concurrent use is outside the statement",
        "KDTree::emplace was ill-formed on the tree this suite started from: it is executed only when the tree under test makes it compile (feature probe at configuration time)",
        "a crash of ~KDTree on an empty tree is established once per process (and per instantiation) in a forked child and then reported for every later empty destruction without re-executing it",
        "SHAPE sections (chain, chain_linked, bushy): 'safe' includes 'does not exhaust the stack of the calling thread': every operation the statement names (insert, erase, erase_advance, iteration, at, exists, within, exists(low,high), size, destruction) must work on a tree of any shape "
        "on a thread whose stack is 64 KiB (the unchanged library needs a constant 24 KiB there including thread start-up and the sanitizer, measured per case and reported as a histogram); depth() is not named by the statement and is recursive in the library (TODO in KDTree.hh): "
        "it is not called by these sections; chain_depth_info executes it for information only (it dies on a 64 KiB stack from 10^4 levels and on the main thread at 10^6) and never reports a violation",
        "chain_linked: a chain of 10^5 / 10^6 entries costs n^2/2 node visits through insert() (minutes / hours), so the harness links it node by node (white box) - valid because for these families every new entry lands below the previously inserted one; the per-axis path interval is checked "
        "for every node and the result is compared node by node with the tree insert() builds at 7, 100 and 1000 entries for every family and world in every run; everything after the construction goes through the public interface",
        "SHAPE sections: observers at sampled positions for n > 1000 (entries 0, 1, n/4, n/2-1, n/2, 3n/4, n-2, n-1 of the insertion order, five absent points, 13 boxes) instead of every grid point and box; emptying a chain of 10^4 or more entries is not executed "
        "(each delete_node step below an after_or_equal chain allocates a queue: quadratic with a large constant in the library itself)",
    ],
    engine="E-BFS + E-ENUM",
    technique="explicit-state breadth-first search over real KDTree objects (histories replayed on fresh objects, white-box canonical form, fixpoint under a live-entry bound) plus exhaustive enumeration of operation sequences on one object, boundary-coordinate pairs for every "
              "coordinate type, iterator members, calling contexts and emplace forms, and of degenerate (chain) and wide tree shapes up to 10^5 (10^6) entries on small thread stacks; brute-force multiset oracle, structural invariant and destruction in every state under ASan/LSan",
    level_text="Every KD-tree structure reachable with at most N live entries from the 3x3 grid (and the 2x2x2 cube), also with the grid at the int64_t limits, by any interleaving of insert, emplace, erase and erase-while-iterating is built on the real code and, in each one, size, iteration, "
               "at/exists for every grid point, within/exists for every box, erase results, the ordering invariant and destruction are compared with a linear-scan multiset; in addition every operation sequence of bounded length on a single object, every ordered pair of boundary coordinates "
               "of every integer and floating coordinate type in 1 to 4 dimensions, every iterator member and seven calling contexts are enumerated; and the complete life cycle of a tree is run for every chain-producing insertion order and a balanced one at 10^2 .. 10^5 (thorough 10^6) entries "
               "on the main thread and on 128 KiB / 64 KiB thread stacks; inside those bounds the verdict is exhaustive.",
    level_note="Trusted: the harness's multiset/list model and box membership test; the canonical form omits dim/parent, which is sound because both are verified in every state. Bounded by live entries (7/5/5 thorough), history length (6), small grids and two coordinate values per boundary case; big trees only in ten fixed shapes (nine chains, one balanced grid) with observers at sampled positions.",
)
