from props import P

CFG = P(
        harness=["harness/C08.cc"], srcs=["Strings.cc", "Filesystem.cc", "Process.cc", "Time.cc", "Encoding.cc"],
        cxxflags=[], harness_cxxflags=[], ldflags=[],
        rule="a case is one (function, input string, parameters) tuple; tuples are distinct by construction (shortest-first odometer over the section's alphabet, no duplicates); a case is non-trivial when the input contains at least one character the function treats specially (a delimiter, bracket, quote, blank, backslash, comment opener, strippable character, letter to map, occurrence of the target, or a format whose result reaches the requested length)",
        bounds={
            "quick": "split (string, wstring): {a,b,','}^<=8 x 3 delimiters x max_splits {0,1,2,3,9}; join: all lists of <=4 items from {'',a,b,ab} x 3 delimiters x 3 delimiter types x 5 containers; split_context: 10-symbol alphabet ^<=6 (delimiter ',') and 8-symbol alphabet ^<=5 (delimiter 'a') x 5 max_splits; split_args: {a,space,tab,\",',\\}^<=7; strip_* : {a,space,tab,LF,CR,NUL}^<=6; strip_multiline_comments: {a,/,*,LF}^<=8 x allow_unterminated; starts/ends_with: all pairs over {a,b}^<=5 and {a,NUL}^<=4; toupper/tolower: all byte strings <=2; str_replace_all: {a,b}^<=7 and {a,b,NUL}^<=5 x 6 targets x 4 replacements; skip_*: both overloads, {a,space,tab,LF,CR(,NUL)}^<=6 x every offset; string_printf: 5 formats x result lengths up to 1 MiB",
            "thorough": "quick bounds with split_context widened to ^<=7 (delimiter ',') and ^<=6 (delimiter 'a'), split_args to ^<=8, strip_* to ^<=7, strip_multiline_comments to ^<=10 (string) / ^<=8 (wstring)",
        },
        explanation="E-ENUM over the real functions; model-free laws first (textbook join of the pieces == input, piece count == delimiters+1 capped at max_splits+1, no delimiter in a non-final piece, the library's join inverts split), then plain reference definitions written in the harness in a different style (character accumulation, recursive-descent bracket/quote scanner, erase loops, find-based comment remover); join is additionally checked on its own against the textbook definition so a failing round trip is attributed to the right function",
        assumptions=[
            "split_context: inputs with a closing bracket that does not close the innermost open group, or with a backslash outside a quoted string, are a don't-care class for the 'top-level' checks (reasonable readings differ); the model-free laws (textbook join of the pieces == input, 1..max_splits+1 pieces) and exception type are still checked on them",
            "split_context: brackets are ( [ { < with their matching closers, ' and \" quote, backslash escapes inside quotes only; 'accepts iff balanced' is checked on the unambiguous class only",
            "split_args: inputs on which a reading where \"\" produces an (empty) argument yields an empty argument are a don't-care class (the statement does not settle whether an empty quoted argument is produced); NUL bytes are not in the split_args alphabet (a shell argument cannot contain one)",
            "split_args: blanks are space and tab; a backslash escapes the next character inside and outside both quote kinds (documented by StringsTest)",
            "whitespace for strip_*/skip_* is {space, tab, CR, LF}; NUL is not whitespace; the strip_*whitespace templates cannot be instantiated for std::wstring (narrow literal passed to wstring::find_*_of), so std::wstring covers strip_trailing_zeroes and strip_multiline_comments only",
            "strip_multiline_comments: '/*/' does not close a comment (C rule); the string's content after a throw is not compared",
            "toupper/tolower reference is the ASCII mapping (process runs in the \"C\" locale)",
            "str_replace_all: target is non-empty and NUL-free (const char* API); occurrences are replaced leftmost-first without overlap",
            "skip_* offsets are within 0..len; the const char* overloads see NUL-free strings (the terminator ends the string)",
            "string_printf is compared with the text constructed by definition and cross-checked with vsnprintf into a sufficiently large buffer",
            "the statement's 'random strings over all 256 byte values up to 4 KiB' are not sampled (technique is exhaustive enumeration only); byte-value generality is covered by toupper/tolower over all byte pairs and the NUL-containing alphabets",
        ],
        engine="E-ENUM",
        technique="exhaustive enumeration of all strings up to length 8 over per-function adversarial alphabets on the real functions; algebraic laws plus independent reference definitions",
        level_text="Every string up to the section's length bound over an alphabet made of the characters each function treats specially (delimiters, brackets, quotes, blanks, backslash, comment markers, NUL) is executed, with every delimiter / max_splits / flag / offset combination, on the real split, join, split_context, split_args, strip_*, strip_multiline_comments, starts_with, ends_with, toupper, tolower, str_replace_all, skip_* and string_printf; laws are checked on every case and results compared with reference definitions; within these bounds the verdict is a coverage statement.",
        level_note="Trusted: the reference definitions in harness/C08.cc; std::string / std::wstring themselves; vsnprintf as the printf oracle. Strings longer than 8 characters and characters outside the alphabets (except toupper/tolower: all bytes) are not explored.",
        deadline={"quick": 600, "thorough": 3600},
    )
