from props import P

CFG = P(
    harness=["harness/C14.cc"],
    srcs=["Filesystem.cc", "Strings.cc", "Process.cc", "Time.cc", "Encoding.cc"],
    harness_cxxflags=["-fno-access-control"],
    ldflags=["-Wl,--wrap=read,--wrap=pread,--wrap=open,--wrap=close"],
    engine="E-ENV",
    deadline={"quick": 900, "thorough": 5400},
    rule="one case = (function, source size, arguments) explored over every delivery plan within the bound (each read()/cookie callback answer is a choice point), or one line length / file size / path / directory tree / scoped_fd history / Poll history; non-trivial = more than one delivery plan exists, or the history/tree is non-empty",
    bounds={
        "quick": "fd sources 0..10 bytes: all delivery compositions + one EINTR; 9 block-boundary sizes to 200 KiB with answers {full,1,half,count-1,EINTR}, <=2 deviations; cookie streams likewise; fgets: every line length 0..1100; files 0..300 + boundaries; paths over {a,/,.}^<=7; trees <=3 entries x 7 kinds; scoped_fd histories <=5; Poll BFS fixpoint + unmerged <=4",
        "thorough": "as quick with <=3 deviations, fgets with 5 chunkings, paths ^<=9, trees <=4 entries, scoped_fd histories <=6, Poll unmerged <=5",
    },
    explanation="E-ENV: libc read/pread/open/close are interposed with -Wl,--wrap and FILE streams are fopencookie streams, so how many bytes each call delivers (or EINTR) is a choice enumerated exhaustively within a deviation bound on the real Filesystem.cc; oracle = returned bytes equal the source content (or an exception); E-BFS for Poll (white-box vector vs std::map, kernel poll as readiness reference) and exhaustive histories for scoped_fd with logged open/close",
    assumptions=[
        "stream error injection is not compared (the statement does not say whether a stream error must throw); fd EINTR is injected and must throw or deliver",
        "fgets content is free of NUL bytes (the strlen-based API cannot represent them)",
        "directory trees live under /verif/build/scratch/C14 on the local file system; entry kinds: file, empty dir, dir+file, symlink to outside file/dir, dangling symlink, dir containing a symlink to an outside dir",
        "glibc's buffered-stream layer sits between the cookie callback and phosg (it is part of the delivered environment, not modelled)",
    ],
    technique="deviation-bounded exhaustive enumeration of environment answers (short reads, EINTR, cookie chunking) on the real code via link-time interposition; explicit-state BFS for Poll; exhaustive operation histories for scoped_fd",
    level_text="Every delivery plan within the stated bound is executed on the real read helpers (all 2^(n-1) chunkings for sources up to 10 bytes; deviation-bounded answers around the 256-byte and 16 KiB internal block sizes up to 200 KiB), every line length 0..1100 on fgets, every small directory tree, every scoped_fd history up to the depth and the Poll state space to a fixpoint, each against a byte-exact reference.",
    level_note="Trusted: the interposition layer (harness/C14.cc) and the kernel's own file/pipe semantics; deliveries are enumerated up to the deviation bound, not all 2^n chunkings of large sources.",
)
