from props import P

CFG = P(
    harness=["harness/C16.cc"],
    srcs=["Strings.cc", "Filesystem.cc", "Process.cc", "Time.cc", "Encoding.cc", "Tools.cc"],
    engine="E-SCHED",
    variants={
        "tsan": dict(harness=["harness/C16_tsan.cc"], sanitizer="thread", tiers=["quick", "thorough"], supportive=True),
    },
    deadline={"quick": 900, "thorough": 7200},
    rule="one case = one configuration (function, IntT, range, block size, thread count, set of values whose callback returns true, progress_fn on/off); inside it every interleaving of the scheduling points (atomic ops, spawn, exit, join, usleep) is enumerated by DFS with visited-state pruning; a configuration is non-trivial when it has >=2 threads and >=2 values (interleavings can collide)",
    bounds={
        "quick": "all interleavings for threads<=2 (n<=4) and threads=3 (n<=3); threads=3,n=4 with preemption bound 2; uint8 top-of-range configurations unbounded",
        "thorough": "all interleavings, no preemption bound, for every configuration with n<=4 values and <=3 worker threads",
    },
    explanation="E-SCHED: the unmodified Tools.hh templates run on scheduler-controlled atomic/thread shims (macro retargeting in the harness TU); DFS over all schedules, exactly-once / true-hit / joined oracle on every complete execution; failing schedules are replayed twice before being reported",
    assumptions=[
        "sequentially consistent interleaving semantics: every atomic operation in Tools.hh is seq_cst, so this is exact for the atomic part; non-atomic shared data is covered by the free-running ThreadSanitizer variant, which samples schedules and is supportive only",
        "the user callback and progress_fn are atomic steps (they only record the call)",
        "visited-state pruning key: values of all live atomics, per-thread finished/pending-op/observation-history hash, callback log as a multiset; thread bodies are deterministic functions of what they observed",
    ],
    technique="stateless model checking of the real templates: DFS over all thread interleavings under a serialising scheduler with visited-state pruning (preemption-bounded for the largest quick configurations)",
    level_text="Every interleaving of the workers' and the caller's synchronisation operations is executed on the real parallel_range* templates for ranges of 0..4 values, 1..3 worker threads, every block size, every true-set and both progress modes, and the exactly-once / in-range / true-hit / joined oracle is evaluated on each complete execution; schedules, states and transitions are counted.",
    level_note="Trusted: the scheduler shims (engine/sched.hh) faithfully model seq_cst atomics and std::thread; ranges beyond 4 values and more than 3 threads are not explored exhaustively.",
)
