# Per-property configuration consumed by check.py (build inputs, deadlines, evidence texts).
# srcs: /repo/src/*.cc files linked into the harness (compiled from the current working tree).

COMMON_ASSUME = [
    "host is little-endian x86-64 Linux; the PHOSG_BIG_ENDIAN branches are not compiled",
    "g++ 12 -O1 with AddressSanitizer is the execution platform; behaviour that differs only under other compilers/optimisation levels is not covered",
    "every explored trace is an execution of the code compiled from /repo's working tree at check time; reference models live in the harness source",
]


def P(**kw):
    kw.setdefault("cxxflags", [])
    kw.setdefault("ldflags", [])
    kw.setdefault("deadline", {"quick": 900, "thorough": 5400})
    kw["assumptions"] = COMMON_ASSUME + kw.get("assumptions", [])
    return kw


NOT_APPLICABLE = {}
HOOK_COMMITS = []
ENGINES = [
    dict(name="bfs", path="harness/bfs.hh", serves=["C12", "C13"], kind="explicit-state BFS over real objects (state = replayed operation history, white-box canonical form)"),
    dict(name="sched", path="engine/sched.hh", serves=["C16"], kind="serialising thread scheduler + DFS over all interleavings with visited-state pruning"),
    dict(name="env", path="engine/env.hh", serves=["C14", "C15"], kind="deviation-bounded enumeration of environment answers behind link-time interposed libc calls"),
]

PROPS = {}


def _load():
    import glob, importlib.util, os
    here = os.path.dirname(os.path.abspath(__file__))
    for f in sorted(glob.glob(os.path.join(here, "props_d", "C*.py"))):
        pid = os.path.basename(f)[:-3]
        spec = importlib.util.spec_from_file_location("props_d_" + pid, f)
        m = importlib.util.module_from_spec(spec)
        spec.loader.exec_module(m)
        PROPS[pid] = m.CFG


_load()
