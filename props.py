# Per-property configuration consumed by check.py (build inputs, deadlines, evidence texts).
# srcs: /repo/src/*.cc files linked into the harness (compiled from the current working tree).

COMMON_ASSUME = [
    "host is little-endian x86-64 Linux; the PHOSG_BIG_ENDIAN branches are not compiled",
    "g++ 12 -O1 with AddressSanitizer is the execution platform; behaviour that differs only under other compilers/optimisation levels is not covered",
    "every explored trace is an execution of the code compiled from /repo's working tree at check time; reference models live in the harness source",
]


def P(**kw):
    kw.setdefault("cxxflags", [])
    kw.setdefault("ldflags", [])
    kw.setdefault("deadline", {"quick": 900, "thorough": 5400})
    kw["assumptions"] = COMMON_ASSUME + kw.get("assumptions", [])
    return kw


NOT_APPLICABLE = {}
HOOK_COMMITS = []
ENGINES = [
    dict(name="bfs", path="harness/bfs.hh", serves=["C12", "C13"], kind="explicit-state BFS over real objects (state = replayed operation history, white-box canonical form)"),
    dict(name="sched", path="engine/sched.hh", serves=["C16"], kind="serialising thread scheduler + DFS over all interleavings with visited-state pruning"),
    dict(name="env", path="engine/env.hh", serves=["C14", "C15"], kind="deviation-bounded enumeration of environment answers behind link-time interposed libc calls"),
]

PROPS = {}

# libc functions whose return is a scheduling point in E-PREEMPT variants (engine/preempt.hh, VP_WRAP_LIBC)
PREEMPT_WRAPPED = ["vsnprintf", "snprintf", "sprintf", "strftime", "gmtime", "localtime", "gmtime_r", "localtime_r", "strtok", "strerror"]


def _wrap_libc(cfg):
    v = cfg.get("variants", {}).get("preempt")
    if not v:
        return
    v["ldflags"] = list(v.get("ldflags", cfg.get("ldflags", []))) + ["-Wl,--wrap=" + f for f in PREEMPT_WRAPPED]
    v["harness_cxxflags"] = list(v.get("harness_cxxflags", cfg.get("harness_cxxflags", []))) + ["-DVP_WRAP_LIBC"]


def _describe_preempt(pid, cfg):
    """Texts for the E-PREEMPT variant built from harness/preempt_pure.hh (C10 describes its own variant by hand)."""
    v = cfg.get("variants", {}).get("preempt")
    if not v or "pairs_text" not in v:
        return
    files = ", ".join("src/" + f for f in v.get("src_cxxflags", {}))
    for tier in ("quick", "thorough"):
        cfg["bounds"][tier] += ("; concurrent_pairs (variant 'preempt', E-PREEMPT): " + v["pairs_text"] + ": every unordered pair of these calls, and every call paired with itself, run concurrently under EVERY schedule "
                                "with <= 2 preemptions (same-function pairs of short calls%s) or <= 1 preemption (all other pairs) at basic-block granularity, every completion order; each call must return "
                                "what it returns when it runs alone" % ("" if tier == "quick" else "; in this tier also longer calls and cross-function pairs"))
    cfg["assumptions"].append(
        "concurrency (variant 'preempt', engine/preempt.hh): two calls run as fibers of one OS thread; only %s %s compiled with -fsanitize-coverage=trace-pc and every basic-block entry there is a scheduling "
        "point; interleavings are explored at that granularity under sequentially consistent semantics; a read-modify-write inside one basic block, weak-memory effects and all code outside the instrumented "
        "files (libc, libstdc++ out-of-line code, other phosg sources) are atomic steps, except that the return from each of the libc calls WRAPPEDLIST is a scheduling point as well "
        "(link-time --wrap: the window in which a result parked in static storage is still unread); the oracle is differential (the result under concurrency equals the result of the same call alone, which the main "
        "sections judge against the references); if an instrumented file defines thread_local objects the variant is skipped (fibers would share them) and the run is reported as not exhaustive"
        % (files, "is" if len(v.get("src_cxxflags", {})) == 1 else "are"))
    cfg["assumptions"][-1] = cfg["assumptions"][-1].replace("WRAPPEDLIST", ", ".join(PREEMPT_WRAPPED))
    cfg["engine"] = cfg.get("engine", "E-ENUM") + " + E-PREEMPT"
    cfg["technique"] = cfg["technique"] + "; plus preemption-bounded exhaustive exploration of pairs of concurrent calls (every schedule with <= 1-2 preemptions at basic-block granularity, fibers under a controlled scheduler)"
    cfg["level_note"] = cfg.get("level_note", "") + " Concurrent calls are explored for a fixed list of short calls, two at a time, with a preemption bound of 2 (1 for longer calls), at basic-block granularity of the instrumented sources only."


def _load():
    import glob, importlib.util, os
    here = os.path.dirname(os.path.abspath(__file__))
    for f in sorted(glob.glob(os.path.join(here, "props_d", "C*.py"))):
        pid = os.path.basename(f)[:-3]
        spec = importlib.util.spec_from_file_location("props_d_" + pid, f)
        m = importlib.util.module_from_spec(spec)
        spec.loader.exec_module(m)
        PROPS[pid] = m.CFG
        _describe_preempt(pid, m.CFG)
        _wrap_libc(m.CFG)
        for vname, v in m.CFG.get("variants", {}).items():  # other variants may carry their own evidence texts
            if "bounds_text" in v:
                for tier in ("quick", "thorough"):
                    m.CFG["bounds"][tier] += "; " + vname + " (variant): " + v["bounds_text"]
            if "assumption_text" in v:
                m.CFG["assumptions"].append(v["assumption_text"])


_load()

ENGINES.append(dict(name="preempt", path="engine/preempt.hh", serves=sorted(p for p, c in PROPS.items() if "preempt" in c.get("variants", {})),
                    kind="preemption-bounded exploration of concurrent calls: gcc trace-pc basic-block callback as scheduling point, fibers, every schedule with <= k preemptions and every completion order"))
