# Per-property configuration consumed by check.py (build inputs, deadlines, evidence texts).
# srcs: /repo/src/*.cc files linked into the harness (compiled from the current working tree).

COMMON_ASSUME = [
    "host is little-endian x86-64 Linux; the PHOSG_BIG_ENDIAN branches are not compiled",
    "g++ 12 -O1 with AddressSanitizer is the execution platform; behaviour that differs only under other compilers/optimisation levels is not covered",
    "every explored trace is an execution of the code compiled from /repo's working tree at check time; reference models live in the harness source",
]


def P(**kw):
    kw.setdefault("cxxflags", [])
    kw.setdefault("ldflags", [])
    kw.setdefault("deadline", {"quick": 900, "thorough": 5400})
    kw["assumptions"] = COMMON_ASSUME + kw.get("assumptions", [])
    return kw


NOT_APPLICABLE = {}
HOOK_COMMITS = []
ENGINES = [
    dict(name="bfs", path="engine/bfs.hh", serves=["C12", "C13"], kind="explicit-state BFS over real objects (state = replayed operation history, white-box canonical form)"),
    dict(name="sched", path="engine/sched.hh", serves=["C16"], kind="serialising thread scheduler + DFS over all interleavings with visited-state pruning"),
    dict(name="env", path="engine/env.hh", serves=["C14", "C15"], kind="deviation-bounded enumeration of environment answers behind link-time interposed libc calls"),
]

PROPS = {
    "C19": P(
        harness=["harness/C19.cc"], srcs=["UnitTest.cc", "Strings.cc", "Filesystem.cc", "Process.cc", "Time.cc", "Encoding.cc"],
        rule="complete enumeration of (relation, operand pair) over six boundary sets and of the 10x12 (expected type, behaviour) matrix; every case is distinct and non-trivial (it decides throw/no-throw)",
        bounds={"quick": "finite space, enumerated completely", "thorough": "finite space, enumerated completely"},
        explanation="E-ENUM over the real macros/templates; oracle = the C++ relation itself and std::is_base_of",
        assumptions=["operands are int, int64, uint64, std::string, double (no NaN), bool"],
        engine="E-ENUM",
        technique="exhaustive enumeration of the finite (relation, operands) and (expected type, behaviour) spaces on the real helpers",
        level_text="Every relation macro x every ordered operand pair of six boundary sets and the full 10x12 matrix of expect_raises<E> x callee behaviour are executed on the real helpers; the space is finite and enumerated completely, so within it the verdict is a coverage statement, not a sample.",
        level_note="Trusted: the C++ comparison operators and std::is_base_of used as the oracle; operand types limited to int/int64/uint64/string/double/bool.",
    ),
}
